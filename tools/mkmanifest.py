import json
na = {
 "C01":"pure function of (parameters, pose, previous): no schedule, clock, RNG, I/O or shared state for a simulator to control (DESIGN.md section 4)",
 "C02":"pure function (forward composed with inverse); nothing nondeterministic or faultable to simulate",
 "C03":"pure function (two closed forms of forward kinematics)",
 "C04":"histories are caller-side compositions of a stateless pure function; no nondeterminism or fault to inject",
 "C05":"pure function (singularity detection and J4/J6 redistribution)",
 "C06":"pure function (5-DOF solvers)",
 "C07":"pure predicate over (from, to, angle); the only mutator takes &mut self, so sharing is excluded by the type system",
 "C08":"pure filtering of a pure solver's output through immutable Arc<dyn Kinematics> wrappers",
 "C09":"pure composition of isometries through immutable wrappers",
 "C15":"pure; the Jacobian column loop is sequential (into_iter) despite its comment",
 "C16":"pure function (parallelogram coupling)",
 "C17":"pure function (frame construction and forward_transformed)",
 "C20":"the observed API from_urdf takes a String: no I/O, no randomised-container iteration, so it is a pure function of its input",
}
checks=[]
def chk(pid, level, text, note, technique, ref):
    checks.append({
      "property_id": pid,
      "quick_cmd": f"./check {pid} quick",
      "thorough_cmd": f"./check {pid} thorough",
      "evidence_file": f"/verif/evidence/{pid}.json",
      "replay_cmd_template": "./check replay {path}",
      "engine": "opwsim",
      "level_claimed": {"category": level, "text": text, "design_ref": ref},
      "level_note": note,
      "technique": technique,
    })
import sys
spec=json.load(open('/verif/tools/manifest_checks.json'))
for c in spec: chk(**c)
m={
 "version":1,
 "setup_cmd":"./check setup",
 "hooks":{
   "guard":"--cfg rs_opw_kinematics_verif",
   "enable":"RUSTFLAGS via /verif/sim/.cargo/config.toml ([build] rustflags = [\"--cfg\", \"rs_opw_kinematics_verif\"]); on every check /repo/src is copied (only changed files) into /verif/sim/target/repo-src with std sync primitives and Instant rewritten to the simulator's (tools/rewrite_src.py) and compiled through the shadow manifest /verif/sim/shadow/Cargo.toml",
   "baseline_off_cmd":"cd /repo && cargo nextest run --workspace --no-fail-fast --test-threads 8 --offline || (cd /repo && cargo test --workspace --no-fail-fast --offline)",
   "source_commits": json.load(open('/verif/tools/hook_commits.json')),
   "add_only": True
 },
 "engines":[{"name":"opwsim","path":"/verif/sim","serves_properties":[c["pid"] for c in spec],
   "kind_free_text":"deterministic simulator: real /repo code compiled against contract models of rayon and rand on shuttle tasks, seeded scheduler (uniform/sticky/PCT/starved worker), fault injectors (cancellation, adversarial random outcomes, simulated disk), reference-model oracles, ddmin minimisation, replay files"}],
 "checks":checks,
 "notes":"Technique family: deterministic simulation with fault injection. 13 of the 20 properties are pure functions with no schedule, clock, RNG, I/O or shared state; they are listed under not_applicable rather than decided with another technique (see DESIGN.md section 0).",
 "not_applicable":[{"property_id":k,"reason":v} for k,v in na.items() if k not in [c["pid"] for c in spec]] + json.load(open('/verif/tools/manifest_na_extra.json')),
}
json.dump(m, open('/verif/MANIFEST.json','w'), indent=1)
