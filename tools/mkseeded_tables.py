#!/usr/bin/env python3
"""Regenerate the round-4 / round-5 tables of DESIGN.md section 11 from seeded/*/meta.json and
seeded/RESULTS.json (between the markers)."""
import json, os, re
res=json.load(open('/verif/seeded/RESULTS.json'))
def table(prefix):
    rows=[]
    for sid in sorted(k for k in os.listdir('/verif/seeded') if k.startswith(prefix)):
        meta=json.load(open(f'/verif/seeded/{sid}/meta.json'))
        r=res.get(sid,{}).get('quick',{})
        cl=', '.join(sorted(set(c.split(' ')[0] for c in r.get('clauses',[]))))[:80]
        rows.append(f"| {sid} | {meta['property']} | {meta['breaks'][:120]} | {'yes' if r.get('detected') else ('?' if not r else 'NO')} | {cl} | {meta.get('evaluation_history','caught when first run')} |")
    return "| id | property | what it breaks | caught by quick | clauses | history |\n|---|---|---|---|---|---|\n"+"\n".join(rows)
tot=len([k for k in res if re.match(r'^(r\d-)?c\d+-m\d$',k)])
det=len([k for k,v in res.items() if re.match(r'^(r\d-)?c\d+-m\d$',k) and v.get('quick',{}).get('detected')])
thor=[k for k,v in res.items() if v.get('thorough',{}).get('detected') and not v.get('quick',{}).get('detected')]
text=f"""<!-- SEEDED-TABLES-BEGIN -->
Fourth round, focus on the EDGES of the input / configuration space (sizes, counts of 0 and 1,
coincidences, extreme parameter values, special floats, pool sizes above the core count): 21 more
confirmed changes, `/verif/seeded/r4-*`. When first run 9 were caught and 12 missed; every miss
was a bound of my generators (or, once, of my oracle's don't-care band), now lifted.

{table('r4-')}

Fifth round, focus on CROSS-MODULE changes (a file that is not the property's home) and TWO-SITE
changes (two edits, each harmless alone): 21 more, `/verif/seeded/r5-*`. When first run 10 were
caught and 11 missed. The misses showed that my oracles still trusted too much of the library
(forward kinematics of the solver and of the Base / Tool wrappers, the robot's own `collides()`,
the constraints object as the solver hands it out); see section 2.7 for what replaced that trust.
One miss led to a genuine defect of /repo (no-check mode in `non_colliding_offsets`, section 10).

{table('r5-')}

Two probes of my own (no demonstration programs, not counted): `own-clock-1` (a 30 ms wall-clock
budget in `dual_rrt_connect`, caught by C12 clause g through the simulated clock) and `own-fk-1`
(`Tool::forward_with_joint_poses` moving link 6 to the tool centre point, caught by the placement
oracle of C10).

Totals over the five rounds: {det} of {tot} seeded changes are caught by the QUICK tier of their
property's check{', ' + ', '.join(thor) + ' only by the thorough tier' if thor else ''}.
<!-- SEEDED-TABLES-END -->"""
s=open('/verif/DESIGN.md').read()
if '<!-- SEEDED-TABLES-BEGIN -->' in s:
    s=re.sub(r'<!-- SEEDED-TABLES-BEGIN -->.*<!-- SEEDED-TABLES-END -->', lambda m: text, s, flags=re.S)
else:
    marker="`c12-m2` (two cooperating sites:"
    s=s.replace(marker, text+"\n\n"+marker)
open('/verif/DESIGN.md','w').write(s)
print(det, tot, thor)
