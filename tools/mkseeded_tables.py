#!/usr/bin/env python3
"""Regenerate the round-4 .. round-11 tables of DESIGN.md section 11 from seeded/*/meta.json and
seeded/RESULTS.json (between the markers)."""
import json, os, re
res=json.load(open('/verif/seeded/RESULTS.json'))
def table(prefix):
    rows=[]
    for sid in sorted(k for k in os.listdir('/verif/seeded') if k.startswith(prefix)):
        meta=json.load(open(f'/verif/seeded/{sid}/meta.json'))
        r=res.get(sid,{}).get('quick',{})
        cl=', '.join(sorted(set(c.split(' ')[0] for c in r.get('clauses',[]))))[:80]
        rows.append(f"| {sid} | {meta['property']} | {meta['breaks'][:120]} | {'yes' if r.get('detected') else ('?' if not r else 'NO')} | {cl} | {meta.get('evaluation_history','caught when first run')} |")
    return "| id | property | what it breaks | caught by quick | clauses | history |\n|---|---|---|---|---|---|\n"+"\n".join(rows)
tot=len([k for k in res if re.match(r'^(r\d+-)?c\d+-m\d$',k)])
det=len([k for k,v in res.items() if re.match(r'^(r\d+-)?c\d+-m\d$',k) and v.get('quick',{}).get('detected')])
thor=[k for k,v in res.items() if v.get('thorough',{}).get('detected') and not v.get('quick',{}).get('detected')]
missed=', '.join('`%s`'%k for k in sorted(res) if re.match(r'^(r\d+-)?c\d+-m\d$',k) and not res[k].get('quick',{}).get('detected'))
text=f"""<!-- SEEDED-TABLES-BEGIN -->
Fourth round, focus on the EDGES of the input / configuration space (sizes, counts of 0 and 1,
coincidences, extreme parameter values, special floats, pool sizes above the core count): 21 more
confirmed changes, `/verif/seeded/r4-*`. When first run 9 were caught and 12 missed; every miss
was a bound of my generators (or, once, of my oracle's don't-care band), now lifted.

{table('r4-')}

Fifth round, focus on CROSS-MODULE changes (a file that is not the property's home) and TWO-SITE
changes (two edits, each harmless alone): 21 more, `/verif/seeded/r5-*`. When first run 10 were
caught and 11 missed. The misses showed that my oracles still trusted too much of the library
(forward kinematics of the solver and of the Base / Tool wrappers, the robot's own `collides()`,
the constraints object as the solver hands it out); see section 2.7 for what replaced that trust.
One miss led to a genuine defect of /repo (no-check mode in `non_colliding_offsets`, section 10).

{table('r5-')}

Sixth round, focus on HISTORY-, STATE- and TIME-DEPENDENT changes and on error / liveness
behaviour (caches and memos keyed by part of the input, statics, `OnceLock`, `thread_local!`,
wall-clock budgets, hangs, panics for rare legal inputs, behaviour that changes on the second use
of an object): 21 more, `/verif/seeded/r6-*`. When first run 13 were caught (one of them,
`r6-c18-m1`, through an artefact of the harness and one, `r6-c14-m1`, only as a wall-clock hang),
3 could not be built against the harness (2 because the rand model lacked `SmallRng` /
`SeedableRng`, 1 because it adds a private field to `KinematicsWithShape`, which no downstream
user that assembles the struct from its public fields survives) and 5 were missed or observed
without a replayable confirmation. This round changed the simulator more than any other: the
process-lifetime state model (statics, once-cells, thread-locals; section 2.1), pool threads
as slots and work stealing while blocked (section 2.3), history support for C18 and C19, the
disk's timestamps (section 2.6), the fallback form of a candidate and bounded confirmation
(section 2.9), the non-termination watchdog.

{table('r6-')}

Seventh round, focus on RARELY EXERCISED ENTRY POINTS, PARAMETERS AND MODES and on NUMERICALLY
DELICATE changes (a constructor variant, a 5-DOF or "continuing" overload, the wrapper as opposed
to the body method, a unit mix-up on a rare path, f32 versus f64, tolerances, comparison
boundaries): 21 more, `/verif/seeded/r7-*`. When first run 11 were caught and 10 missed; the
misses were all workload or oracle bounds (no parallelogram linkage around the stack, bounds
pinned after `from_degrees`, always-legal initial vectors, metre-sized lengths only, no
planner steps below a thousandth of a radian, no goal equal to the start up to rounding, no
constraints obtained through the URDF path, `filter()` never consulted). One stays missed
(`r7-c13-m1`, see its row).

{table('r7-')}

Eighth round, focus on SEMANTICS-CHANGING OPTIMISATIONS (cheaper pre-tests, batching, fast paths,
reuse of buffers and verdicts) and MISUSE OF DEPENDENCIES (parry3d frames and queries, nalgebra
interpolation, kd-tree distances, yaml-rust2 keys, rayon ordering): 21 more,
`/verif/seeded/r8-*`. When first run 19 were caught and 2 missed (no pivots in place and no
fine rotation steps in C12; no offset arrays mixing `deg()` with plain radians in C19).

{table('r8-')}

Ninth round, free choice "of a kind not in the list of the eight earlier rounds" (feature
interactions, order of construction, `Clone`, integer extremes, very long files, degenerate but
legal geometry, shared atomics): 21 more, `/verif/seeded/r9-*`. When first run 13 were caught and 8
missed. Five of the misses were workload bounds again (no cloned tables, no entry equal to a
default, no pure-rotation transforms, a rotationally symmetric last link, integer extremes and
files beyond 64 KiB absent) and are caught now; three stay uncaught and are explained in their
rows (`r9-c10-m2`: the property does not define the configuration it needs; `r9-c12-m2`; `r9-c13-m1`:
a 65,537-vertex tree).

{table('r9-')}

Tenth round, HELD OUT: "the kind of change a maintainer would plausibly merge next month, with a
side effect", produced after the machinery had been frozen (no change of the simulator, the
workloads or the oracles between the ninth round's fixes and the first evaluation of these 21,
`/verif/seeded/r10-*`). First evaluation: 19 of 21 caught by the quick tier, 1 more by the
thorough tier (`r10-c12-m3`, a check-then-act race between strategies), 1 missed (`r10-c12-m2`:
the oracle looked for the `LIN_INTERP` bit only; clause f2 was added afterwards and catches it).
This is the one round whose first-run figure says something about changes nobody tuned for.

{table('r10-')}

Eleventh round, a SECOND HELD-OUT round (last session; time-boxed, two changes asked of each
sub-agent): "manifestation depends on what a single-threaded test with one fixed input cannot
control" — the interleaving of pool workers or caller threads, the pool size, the instant of a
cancellation, a random outcome, state left by an earlier call, the wall clock, a file-system
fault. 12 changes were delivered and confirmed (`/verif/seeded/r11-*`); one more (`c14-m1`, a
thread-local read by stolen inner collision tasks) was delivered but its demonstration PASSED with
the change in both of my confirmation runs, so it is not kept (section 7 says why the simulator
would not reach it either); one sub-agent delivered one change only. First evaluation against the
simulator as frozen before the round: 7 of 12 caught by the quick tier, 1 reported through an
artefact of my harness (`r11-c19-m1`, a FALSE-ALARM source that this round uncovered and that is
repaired: `std::thread::sleep` rewritten to shuttle's panicked outside a simulated run), 1 not
evaluable (`r11-c11-m2`, rayon model API), 3 missed. All three misses and the unbuildable one had
one cause each, all of them missing CALLER CONTEXTS rather than missing inputs: callers that are
pool workers themselves (C10, C11, C14 now have them), concurrent callers of the YAML writer (C19
had none), an earlier FAILED call in the history (C18), the life cycle of rayon's global pool.
After these extensions all 12 are caught by the quick tier.

{table('r11-')}

Probes of my own (no demonstration programs, not counted): `own-hang-1` (a spin loop between
scheduling points, reported as `t:no-termination` by the watchdog), `own-r6-c11-m3-static` (my
port of `r6-c11-m3` to a static, caught by C11 after its second phase was made to repeat the
last request made before the reconfiguration), `own-clock-1` (a 30 ms wall-clock
budget in `dual_rrt_connect`, caught by C12 clause g through the simulated clock) and `own-fk-1`
(`Tool::forward_with_joint_poses` moving link 6 to the tool centre point, caught by the placement
oracle of C10).

Totals over the eleven rounds (final matrix, every kept change against the final machinery, default
seed): {det} of {tot} seeded changes are caught by the QUICK tier of their property's check. Not
caught by the quick tier at the default seed: {missed}. Of these `r10-c12-m3` and `c12-m2` are caught by the thorough
tier (`c12-m2`, a rare event by its author's own account, at 2 of 4 seeds, see below); `r9-c10-m2`
(the property does not define the configuration it needs), `r9-c12-m2`, `r9-c13-m1` (a 65,537-vertex
tree) and `r7-c13-m1` (needs an obstacle thinner than a hundredth of a degree of joint motion) are
explained in their rows; `r6-c11-m3` is not evaluable (it adds a private field to
`KinematicsWithShape`, the harness no longer builds, exit 2; my port of its mechanism to a static
is caught). `r5-c13-m1` (a first-collision search in `chunks_exact` batches: the collision has to
be on a pair in the TAIL of the task list at a pool size that leaves a remainder) used to be
caught at 2 of 4 seeds only; since the last session every third C13 scenario is also run as a
POSITIONAL VARIANT (environment list reversed, tool and / or base body taken away, pool sizes 2-13
that divide few pair counts; start and goal stay free because bodies are only removed or
renumbered) and it is caught at both seeds that used to miss it. Several changes that earlier
matrices caught by luck at the default seed were made robust in the third session (`r2-c13-m1`,
`r4-c11-m1`, `r4-c11-m3`, `r6-c18-m1`, `r8-c19-m3`): every time the simulator's stream layout
changes, marginal detections move, which is why the matrix is re-run after every change of the
machinery. After the last session's extensions (which changed the C10, C11 and C14 generators for
a fifth of their single-caller scenarios) the re-run of the C10, C11 and C14 entries got as far as
the session's time allowed: the 12 entries of round 11 and 40 of the 90 earlier C10 / C11 / C14
entries (rounds 1, 2 and 10 completely, rounds 3-7 in part; all 40 caught again), plus `r5-c13-m1`.
The other 50 C10 / C11 / C14 entries and the C12, C13, C18 and C19 entries of the earlier rounds
are from the matrix of the session before (the C12 generator is unchanged; those of C13, C18 and
C19 only GAINED scenarios since: positional variants, failed-call histories, concurrent writers;
C19 also stamps 12 % of its bases with a future time instead of the real one).
<!-- SEEDED-TABLES-END -->"""
s=open('/verif/DESIGN.md').read()
if '<!-- SEEDED-TABLES-BEGIN -->' in s:
    s=re.sub(r'<!-- SEEDED-TABLES-BEGIN -->.*<!-- SEEDED-TABLES-END -->', lambda m: text, s, flags=re.S)
else:
    marker="`c12-m2` (two cooperating sites:"
    s=s.replace(marker, text+"\n\n"+marker)
open('/verif/DESIGN.md','w').write(s)
print(det, tot, thor)
