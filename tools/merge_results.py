#!/usr/bin/env python3
"""tools/merge_results.py <part.json>... : merge partition results into /verif/seeded/RESULTS.json"""
import json, sys
out='/verif/seeded/RESULTS.json'
res={}
for f in sys.argv[1:]:
    for k,v in json.load(open(f)).items():
        res.setdefault(k,{}).update(v)
json.dump(dict(sorted(res.items())), open(out,'w'), indent=1)
print(len(res),'entries')
