#!/usr/bin/env python3
"""tools/keep_mutant.py <src dir> <seeded id> <property> <json-fields>
Copy a confirmed property-breaking change into /verif/seeded/<id>/ with a meta.json."""
import json, os, shutil, sys
src, sid, prop, extra = sys.argv[1], sys.argv[2], sys.argv[3], json.loads(sys.argv[4])
dst = f"/verif/seeded/{sid}"
os.makedirs(dst, exist_ok=True)
for f in os.listdir(src):
    if f == "patch.diff" or f.startswith("demo_") or f == "notes.md":
        shutil.copy(os.path.join(src, f), dst)
meta = {"property": prop, "origin": "independent sub-agent given only the property text and a scratch worktree",
        "base_commit": os.popen("git -C /repo rev-parse --short HEAD").read().strip()}
meta.update(extra)
json.dump(meta, open(os.path.join(dst, "meta.json"), "w"), indent=1)
print("kept", dst)
