#!/bin/bash
# tools/seeded_matrix.sh [tier] [ids...] — run every kept seeded change against its property's
# check (in the scratch mutant runner, never in /repo) and write /verif/seeded/RESULTS.json
# (MATRIX_OUT=<file> and MUTROOT=<dir> allow several partitions to run side by side; merge with
# tools/merge_results.py).
TIER="${1:-quick}"; shift
IDS="$@"; [ -z "$IDS" ] && IDS=$(ls /verif/seeded | grep -E '^(r[0-9]+-)?c[0-9]+-m[0-9]+$')
OUT=/verif/seeded/RESULTS.json
python3 - "$TIER" $IDS <<'PY'
import json, subprocess, sys, os, re
tier=sys.argv[1]; ids=sys.argv[2:]
path=os.environ.get('MATRIX_OUT','/verif/seeded/RESULTS.json')
res=json.load(open(path)) if os.path.exists(path) else {}
for sid in ids:
    meta=json.load(open(f'/verif/seeded/{sid}/meta.json'))
    prop=meta['property']
    p=subprocess.run(['/verif/tools/mutant_run.sh', f'/verif/seeded/{sid}/patch.diff', prop, tier], capture_output=True, text=True)
    out=p.stdout+p.stderr
    clauses=sorted(set(re.findall(r'clause=(\S+) signature=(\S+)', out)))
    summary=[l for l in out.splitlines() if l.startswith(prop+' ')]
    res.setdefault(sid,{})[tier]={'exit':p.returncode,'detected':p.returncode==1,'clauses':[f'{c} [{s}]' for c,s in clauses][:6],'summary':summary[-1] if summary else out[-300:]}
    print(sid, tier, 'exit', p.returncode, [c for c,_ in clauses][:3])
    json.dump(res, open(path,'w'), indent=1)
PY
