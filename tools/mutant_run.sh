#!/bin/bash
# tools/mutant_run.sh <patch.diff> <check-id> [tier] [seed]
# Evaluate a property-breaking change WITHOUT touching /repo: the patch is applied to a scratch
# worktree of /repo's HEAD, a scratch copy of the simulator workspace is pointed at that
# worktree, and the named check runs there (evidence and replays go to the scratch root).
# Prints the verdict lines; exit status is the check's (0 held / 1 violation / 2 harness error).
set -u
PATCH="$(readlink -f "$1")"; CHECK="$2"; TIER="${3:-quick}"; SEED="${4:-20260927}"
ROOT="${MUTROOT:-/tmp/mutcheck}"
mkdir -p "$ROOT/root/evidence" "$ROOT/root/replays"; rm -f "$ROOT/root/replays"/*.json
if [ ! -d "$ROOT/wt" ]; then git -C /repo worktree add -q --detach "$ROOT/wt" HEAD || exit 2; fi
git -C "$ROOT/wt" reset -q --hard >/dev/null 2>&1; git -C "$ROOT/wt" checkout -q --detach "$(git -C /repo rev-parse HEAD)" && git -C "$ROOT/wt" reset -q --hard && git -C "$ROOT/wt" clean -fdq -e target
if [ "$PATCH" != "/dev/null" ]; then git -C "$ROOT/wt" apply "$PATCH" 2>/dev/null || (git -C "$ROOT/wt" apply --3way "$PATCH" && git -C "$ROOT/wt" reset -q) || { echo "HARNESS-ERROR: patch does not apply"; exit 2; }; fi
rsync -a --delete --exclude target --exclude '.build-log.*' "${SIMSRC:-/verif/sim}/" "$ROOT/sim/"
cp /verif/known_findings.json "$ROOT/root/" 2>/dev/null
mkdir -p "$ROOT/sim/target"
python3 /verif/tools/rewrite_src.py "$ROOT/wt/src" "$ROOT/sim/target/repo-src" >/dev/null || exit 2
if ! (cd "$ROOT/sim" && CARGO_NET_OFFLINE=true CARGO_TARGET_DIR="$ROOT/target" cargo build --offline -p opwsim) >"$ROOT/build.log" 2>&1; then
    python3 /verif/tools/rewrite_src.py --plain "$ROOT/wt/src" "$ROOT/sim/target/repo-src" >/dev/null
    if (cd "$ROOT/sim" && CARGO_NET_OFFLINE=true CARGO_TARGET_DIR="$ROOT/target" cargo build --offline -p opwsim) >"$ROOT/build.log" 2>&1; then
        echo "NOTE: rewritten copy did not compile; running on a plain copy"
    else
        echo "HARNESS-ERROR: build failed"; grep -E "^error" -A 8 "$ROOT/build.log" | head -40; exit 2
    fi
fi
VERIF_ROOT="$ROOT/root" VERIF_SEED="$SEED" OPWSIM_REPORT_FD=3 "$ROOT/target/debug/opwsim" "$CHECK" "$TIER" 3>&1 1>/dev/null
