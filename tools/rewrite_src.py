#!/usr/bin/env python3
"""tools/rewrite_src.py <repo src dir> <out dir>

Copy /repo/src and put std's synchronisation primitives behind the simulator's seam at the
SOURCE level: std::sync::atomic, std::sync::{Mutex, RwLock, Condvar, Barrier, Once, mpsc},
and std::thread become shuttle's (thread_local! stays std's, see below), std::time::Instant
becomes the simulated clock simctx::time::Instant. Every access to such a primitive is then a
scheduling point the simulator owns, wherever in the crate it is (hook H1 covers only the three
planner files and only their existing imports). Nothing else is touched; the copy is rebuilt from
the current working tree on every check.
"""
import filecmp, os, re, shutil, sys, tempfile
plain = '--plain' in sys.argv
args = [a for a in sys.argv[1:] if not a.startswith('--')]
src, final = args[0], args[1]
out = tempfile.mkdtemp(prefix='rw-', dir=os.path.dirname(final.rstrip('/')) or '.')
os.rmdir(out)
shutil.copytree(src, out, ignore=shutil.ignore_patterns('visualize'))
SYNC = {'Mutex', 'MutexGuard', 'RwLock', 'RwLockReadGuard', 'RwLockWriteGuard', 'Condvar', 'Barrier', 'Once', 'mpsc', 'atomic'}

def split_group(m):
    indent, items = m.group(1), m.group(2)
    parts, depth, cur = [], 0, ''
    for ch in items:
        if ch == '{': depth += 1
        if ch == '}': depth -= 1
        if ch == ',' and depth == 0:
            parts.append(cur.strip()); cur = ''
        else:
            cur += ch
    if cur.strip(): parts.append(cur.strip())
    sh = [p for p in parts if re.split(r'\W', p)[0] in SYNC]
    st = [p for p in parts if p not in sh]
    lines = []
    if st: lines.append(f"{indent}use std::sync::{{{', '.join(st)}}};")
    if sh: lines.append(f"{indent}use shuttle::sync::{{{', '.join(sh)}}};")
    return '\n'.join(lines)

n_files = 0
for root, _, files in ([] if plain else os.walk(out)):
    for f in files:
        if not f.endswith('.rs'): continue
        p = os.path.join(root, f)
        s = open(p).read()
        o = s
        # A `static` of a synchronisation type outlives a simulated execution; shuttle's primitives
        # carry per-execution bookkeeping (vector clocks) and must not. Files that declare such
        # statics keep std's primitives (their accesses are then not scheduling points; work-item
        # boundaries still are).
        if re.search(r'(?m)^\s*(pub(\([^)]*\))?\s+)?static\s+(mut\s+)?\w+\s*:\s*[^=;]*\b(Atomic\w+|Mutex|RwLock|Once|OnceLock|LazyLock|Condvar|Barrier)\b', s):
            continue
        s = re.sub(r'(?m)^(\s*)use std::sync::\{([^;]*)\};', split_group, s)
        s = re.sub(r'\bstd::sync::(atomic|Mutex|MutexGuard|RwLock|RwLockReadGuard|RwLockWriteGuard|Condvar|Barrier|Once\b|mpsc)', r'shuttle::sync::\1', s)
        # the clock seam: Instant becomes the simulated clock (Duration stays std's)
        def split_time(m):
            indent, items = m.group(1), [x.strip() for x in m.group(2).split(',') if x.strip()]
            st = [x for x in items if x != 'Instant']
            lines = []
            if st: lines.append(f"{indent}use std::time::{{{', '.join(st)}}};")
            if 'Instant' in items: lines.append(f"{indent}use simctx::time::Instant;")
            return '\n'.join(lines)
        s = re.sub(r'(?m)^(\s*)use std::time::\{([^;]*)\};', split_time, s)
        s = re.sub(r'\bstd::time::Instant\b', 'simctx::time::Instant', s)
        s = re.sub(r'\bstd::thread::(spawn|scope|sleep|yield_now|current|park|JoinHandle|Builder|ThreadId)\b', r'shuttle::thread::\1', s)
        s = re.sub(r'(?m)^(\s*)use std::thread;', r'\1use shuttle::thread;', s)
        # thread_local! is deliberately NOT rewritten: all simulated tasks of a shard run on one OS
        # thread, so std's thread-locals behave as they do for a caller that does everything from
        # one thread (rayon, too, re-enters a worker while it waits on nested work): state kept in
        # them survives from call to call, which is exactly what history-dependent defects need.
        if s != o:
            open(p, 'w').write(s)
            n_files += 1
# sync into the final directory touching only files whose content changed (keeps cargo's
# incremental build effective)
os.makedirs(final, exist_ok=True)
changed = 0
for root, dirs, files in os.walk(out):
    rel = os.path.relpath(root, out)
    os.makedirs(os.path.join(final, rel), exist_ok=True)
    for f in files:
        a, b = os.path.join(root, f), os.path.join(final, rel, f)
        if not os.path.exists(b) or not filecmp.cmp(a, b, shallow=False):
            shutil.copyfile(a, b)
            changed += 1
for root, dirs, files in os.walk(final, topdown=False):
    rel = os.path.relpath(root, final)
    for f in files:
        if not os.path.exists(os.path.join(out, rel, f)):
            os.remove(os.path.join(root, f))
    for d in dirs:
        if not os.path.exists(os.path.join(out, rel, d)):
            shutil.rmtree(os.path.join(root, d), ignore_errors=True)
shutil.rmtree(out)
print(f"{'plain copy' if plain else 'rewrote sync primitives'}: {n_files} files rewritten, {changed} files updated in {final}")
