#!/usr/bin/env python3
"""tools/rewrite_src.py <repo src dir> <out dir>

Copy /repo/src and put std's synchronisation primitives behind the simulator's seam at the
SOURCE level: std::sync::atomic, std::sync::{Mutex, RwLock, Condvar, Barrier, Once, mpsc},
and std::thread become shuttle's; Once/OnceLock/LazyLock, every primitive of a file that declares
`static` synchronisation items, and thread_local! become the simulator's own (simctx::sync,
simctx::tls); std::time::Instant becomes the simulated clock simctx::time::Instant. Every access to such a primitive is then a
scheduling point the simulator owns, wherever in the crate it is (hook H1 covers only the three
planner files and only their existing imports). Nothing else is touched; the copy is rebuilt from
the current working tree on every check.
"""
import filecmp, os, re, shutil, sys, tempfile
plain = '--plain' in sys.argv
args = [a for a in sys.argv[1:] if not a.startswith('--')]
src, final = args[0], args[1]
out = tempfile.mkdtemp(prefix='rw-', dir=os.path.dirname(final.rstrip('/')) or '.')
os.rmdir(out)
shutil.copytree(src, out, ignore=shutil.ignore_patterns('visualize'))
SYNC = {'Mutex', 'MutexGuard', 'RwLock', 'RwLockReadGuard', 'RwLockWriteGuard', 'Condvar', 'Barrier', 'mpsc', 'atomic'}
# process-lifetime cells: always the simulator's (std's block the OS thread all tasks share while
# another task is inside the initialiser; shuttle has no OnceLock/LazyLock)
CELLS = {'Once', 'OnceLock', 'LazyLock', 'OnceState'}
# primitives that exist in simctx::sync (usable in `static` items)
IN_SIMCTX = {'Mutex', 'MutexGuard', 'RwLock', 'RwLockReadGuard', 'RwLockWriteGuard', 'atomic'}

def make_split_group(static_file):
    def split_group(m):
        indent, items = m.group(1), m.group(2)
        parts, depth, cur = [], 0, ''
        for ch in items:
            if ch == '{': depth += 1
            if ch == '}': depth -= 1
            if ch == ',' and depth == 0:
                parts.append(cur.strip()); cur = ''
            else:
                cur += ch
        if cur.strip(): parts.append(cur.strip())
        head = lambda p: re.split(r'\W', p)[0]
        sx = [p for p in parts if head(p) in CELLS or (static_file and head(p) in IN_SIMCTX)]
        sh = [p for p in parts if head(p) in SYNC and p not in sx]
        st = [p for p in parts if p not in sh and p not in sx]
        lines = []
        if st: lines.append(f"{indent}use std::sync::{{{', '.join(st)}}};")
        if sh: lines.append(f"{indent}use shuttle::sync::{{{', '.join(sh)}}};")
        if sx: lines.append(f"{indent}use simctx::sync::{{{', '.join(sx)}}};")
        return '\n'.join(lines)
    return split_group

n_files = 0
for root, _, files in ([] if plain else os.walk(out)):
    for f in files:
        if not f.endswith('.rs'): continue
        p = os.path.join(root, f)
        s = open(p).read()
        o = s
        # A `static` of a synchronisation type outlives a simulated execution; shuttle's primitives
        # carry per-execution bookkeeping and must not. In files that declare such statics the
        # primitives become simctx::sync's: data and poison flag live for the process, the lock
        # state is a shuttle primitive created per execution (see sim/simctx/src/sync.rs).
        static_file = bool(re.search(r'(?m)^\s*(pub(\([^)]*\))?\s+)?static\s+(mut\s+)?\w+\s*:\s*[^=;]*\b(Atomic\w+|Mutex|RwLock|Once|OnceLock|LazyLock|Condvar|Barrier)\b', s))
        s = re.sub(r'(?m)^(\s*)use std::sync::\{([^;]*)\};', make_split_group(static_file), s)
        s = re.sub(r'\bstd::sync::(OnceLock|LazyLock|OnceState|Once\b)', r'simctx::sync::\1', s)
        if static_file:
            s = re.sub(r'\bstd::sync::(atomic|MutexGuard|Mutex|RwLockReadGuard|RwLockWriteGuard|RwLock)\b', r'simctx::sync::\1', s)
        s = re.sub(r'\bstd::sync::(atomic|Mutex|MutexGuard|RwLock|RwLockReadGuard|RwLockWriteGuard|Condvar|Barrier|mpsc)\b', r'shuttle::sync::\1', s)
        # the clock seam: Instant becomes the simulated clock (Duration stays std's)
        def split_time(m):
            indent, items = m.group(1), [x.strip() for x in m.group(2).split(',') if x.strip()]
            st = [x for x in items if x != 'Instant']
            lines = []
            if st: lines.append(f"{indent}use std::time::{{{', '.join(st)}}};")
            if 'Instant' in items: lines.append(f"{indent}use simctx::time::Instant;")
            return '\n'.join(lines)
        s = re.sub(r'(?m)^(\s*)use std::time::\{([^;]*)\};', split_time, s)
        s = re.sub(r'\bstd::time::Instant\b', 'simctx::time::Instant', s)
        # sleep / yield_now: the simulator's (usable outside a simulated run too); the rest: shuttle's
        s = re.sub(r'\bstd::thread::(sleep|yield_now)\b', r'simctx::thread::\1', s)
        s = re.sub(r'\bstd::thread::(spawn|scope|current|park|JoinHandle|Builder|ThreadId)\b', r'shuttle::thread::\1', s)
        if re.search(r'(?m)^\s*use std::thread;', s):
            s = re.sub(r'(?<![\w:])thread::(sleep|yield_now)\b', r'simctx::thread::\1', s)
        s = re.sub(r'(?m)^(\s*)use std::thread;', r'\1use shuttle::thread;', s)
        # thread_local! becomes the simulator's model of thread-locals (sim/simctx/src/tls.rs):
        # one value per THREAD IDENTITY, which concurrently live tasks never share and which
        # survives from call to call like the threads being modelled.
        s = re.sub(r'(?<![\w:])(std::)?thread_local!', 'simctx::sim_thread_local!', s)
        if s != o:
            open(p, 'w').write(s)
            n_files += 1
# sync into the final directory touching only files whose content changed (keeps cargo's
# incremental build effective)
os.makedirs(final, exist_ok=True)
changed = 0
for root, dirs, files in os.walk(out):
    rel = os.path.relpath(root, out)
    os.makedirs(os.path.join(final, rel), exist_ok=True)
    for f in files:
        a, b = os.path.join(root, f), os.path.join(final, rel, f)
        if not os.path.exists(b) or not filecmp.cmp(a, b, shallow=False):
            shutil.copyfile(a, b)
            changed += 1
for root, dirs, files in os.walk(final, topdown=False):
    rel = os.path.relpath(root, final)
    for f in files:
        if not os.path.exists(os.path.join(out, rel, f)):
            os.remove(os.path.join(root, f))
    for d in dirs:
        if not os.path.exists(os.path.join(out, rel, d)):
            shutil.rmtree(os.path.join(root, d), ignore_errors=True)
shutil.rmtree(out)
print(f"{'plain copy' if plain else 'rewrote sync primitives'}: {n_files} files rewritten, {changed} files updated in {final}")
