#!/bin/bash
# tools/confirm_mutant.sh <dir with patch.diff and demo_*.rs>
# Confirms in a scratch worktree (never /repo): the change compiles, the 66 baseline tests still
# pass with it, the demonstration fails with it and passes without it.
set -u
D="$(readlink -f "$1")"
CR="${CONFROOT:-/tmp/mutcheck}"; mkdir -p "$CR"
WT="$CR/confirm-wt"
FEAT="--no-default-features --features allow_filesystem,collisions,stroke_planning"
export CARGO_TARGET_DIR="${CONFTARGET:-/tmp/mut/target-shared}" CARGO_NET_OFFLINE=true
if [ ! -d "$WT" ]; then git -C /repo worktree add -q --detach "$WT" HEAD || exit 2; fi
git -C "$WT" reset -q --hard >/dev/null 2>&1; git -C "$WT" checkout -q --detach "$(git -C /repo rev-parse HEAD)"; git -C "$WT" reset -q --hard; git -C "$WT" clean -fdq
mkdir -p "$WT/tests"
DEMOS=$(cd "$D" && ls demo_*.rs 2>/dev/null)
[ -z "$DEMOS" ] && { echo "no demo_*.rs in $D"; exit 2; }
for f in $DEMOS; do cp "$D/$f" "$WT/tests/"; done
run_demos() { local rc=0; for f in $DEMOS; do (cd "$WT" && cargo test --offline $FEAT --test "${f%.rs}" >"$CR/demo.log" 2>&1) || rc=1; done; return $rc; }
echo -n "demo WITHOUT change: "; if run_demos; then echo pass; else echo "FAIL (unexpected)"; tail -5 $CR/demo.log; fi
git -C "$WT" apply "$D/patch.diff" || { echo "patch does not apply"; exit 2; }
echo -n "baseline lib tests WITH change: "; (cd "$WT" && cargo test --offline --lib $FEAT 2>&1 | grep -E "^test result" | head -1)
echo -n "demo WITH change: "; if run_demos; then echo "pass (unexpected)"; else echo "fail (expected)"; grep -E "panicked|assert" $CR/demo.log | head -3; fi
git -C "$WT" checkout -q -- .; git -C "$WT" clean -fdq
