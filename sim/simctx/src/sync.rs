//! Synchronisation primitives for `static` items (and for whole files that declare such items)
//! of the code under test.
//!
//! shuttle's primitives carry per-execution bookkeeping and must not outlive an execution; std's
//! block the OS thread, on which ALL simulated tasks of a run live (a task pre-empted inside a
//! critical section would block every other task, and the run, for ever). These keep the DATA and
//! the poison flag for the life of the process, like std's, and take the LOCK STATE from a
//! shuttle primitive that is created on first use in each execution (every execution starts
//! with all locks free: no task survives the end of an execution). Blocking is therefore real
//! simulated blocking: the scheduler sees the waiter as blocked, contention and lock order are
//! its decisions, re-entrant locking and cycles are reported by shuttle as deadlocks,
//! deterministically. Outside a simulated run (oracle and set-up code on a driver thread) they
//! fall back to a real lock.

use std::cell::{RefCell, UnsafeCell};
use std::collections::HashMap;
use std::fmt;
use std::ops::{Deref, DerefMut};
use std::sync::atomic::{AtomicBool, Ordering as O};
use std::sync::Arc as StdArc;
pub use std::sync::{Arc, LockResult, PoisonError, TryLockError, TryLockResult, Weak};

thread_local! {
    static MUTEXES: RefCell<(u64, HashMap<usize, StdArc<shuttle::sync::Mutex<()>>>)> = RefCell::new((0, HashMap::new()));
    static RWLOCKS: RefCell<(u64, HashMap<usize, StdArc<shuttle::sync::RwLock<()>>>)> = RefCell::new((0, HashMap::new()));
}

fn exec_mutex(addr: usize) -> StdArc<shuttle::sync::Mutex<()>> {
    let ep = crate::epoch();
    MUTEXES.with(|l| {
        let mut l = l.borrow_mut();
        if l.0 != ep {
            // leak rather than drop: a task of an aborted execution may still be parked on one
            for (_, m) in l.1.drain() {
                std::mem::forget(m);
            }
            l.0 = ep;
        }
        l.1.entry(addr).or_insert_with(|| StdArc::new(shuttle::sync::Mutex::new(()))).clone()
    })
}

fn exec_rwlock(addr: usize) -> StdArc<shuttle::sync::RwLock<()>> {
    let ep = crate::epoch();
    RWLOCKS.with(|l| {
        let mut l = l.borrow_mut();
        if l.0 != ep {
            for (_, m) in l.1.drain() {
                std::mem::forget(m);
            }
            l.0 = ep;
        }
        l.1.entry(addr).or_insert_with(|| StdArc::new(shuttle::sync::RwLock::new(()))).clone()
    })
}

fn addr_of<T: ?Sized>(x: &T) -> usize {
    x as *const T as *const () as usize
}

// ---------------------------------------------------------------------------------------------
// Mutex
// ---------------------------------------------------------------------------------------------

pub struct Mutex<T: ?Sized> {
    poisoned: AtomicBool,
    real: std::sync::Mutex<()>,
    data: UnsafeCell<T>,
}

unsafe impl<T: ?Sized + Send> Send for Mutex<T> {}
unsafe impl<T: ?Sized + Send> Sync for Mutex<T> {}
impl<T: ?Sized> std::panic::UnwindSafe for Mutex<T> {}
impl<T: ?Sized> std::panic::RefUnwindSafe for Mutex<T> {}

enum Held<'a> {
    // field order matters: the guard is dropped before the Arc that owns its mutex
    Sim(Option<shuttle::sync::MutexGuard<'static, ()>>, #[allow(dead_code)] StdArc<shuttle::sync::Mutex<()>>),
    Real(#[allow(dead_code)] std::sync::MutexGuard<'a, ()>),
}

pub struct MutexGuard<'a, T: ?Sized + 'a> {
    lock: &'a Mutex<T>,
    held: Held<'a>,
}

impl<T> Mutex<T> {
    pub const fn new(t: T) -> Self {
        Mutex { poisoned: AtomicBool::new(false), real: std::sync::Mutex::new(()), data: UnsafeCell::new(t) }
    }
    pub fn into_inner(self) -> LockResult<T> {
        let p = self.poisoned.load(O::SeqCst);
        let v = self.data.into_inner();
        if p {
            Err(PoisonError::new(v))
        } else {
            Ok(v)
        }
    }
}

impl<T: ?Sized> Mutex<T> {
    fn guard<'a>(&'a self, held: Held<'a>) -> LockResult<MutexGuard<'a, T>> {
        let g = MutexGuard { lock: self, held };
        if self.poisoned.load(O::SeqCst) {
            Err(PoisonError::new(g))
        } else {
            Ok(g)
        }
    }
    pub fn lock(&self) -> LockResult<MutexGuard<'_, T>> {
        if crate::active() {
            let m = exec_mutex(addr_of(self));
            let g = m.lock().unwrap_or_else(|e| e.into_inner());
            // the guard borrows from `m`, which the Held value keeps alive for longer than the guard
            let g: shuttle::sync::MutexGuard<'static, ()> = unsafe { std::mem::transmute(g) };
            self.guard(Held::Sim(Some(g), m))
        } else {
            let g = self.real.lock().unwrap_or_else(|e| e.into_inner());
            self.guard(Held::Real(g))
        }
    }
    pub fn try_lock(&self) -> TryLockResult<MutexGuard<'_, T>> {
        let held = if crate::active() {
            let m = exec_mutex(addr_of(self));
            let g = match m.try_lock() {
                Ok(g) => g,
                Err(shuttle::sync::TryLockError::Poisoned(e)) => e.into_inner(),
                Err(shuttle::sync::TryLockError::WouldBlock) => return Err(TryLockError::WouldBlock),
            };
            let g: shuttle::sync::MutexGuard<'static, ()> = unsafe { std::mem::transmute(g) };
            Held::Sim(Some(g), m)
        } else {
            match self.real.try_lock() {
                Ok(g) => Held::Real(g),
                Err(TryLockError::Poisoned(e)) => Held::Real(e.into_inner()),
                Err(TryLockError::WouldBlock) => return Err(TryLockError::WouldBlock),
            }
        };
        self.guard(held).map_err(TryLockError::Poisoned)
    }
    pub fn is_poisoned(&self) -> bool {
        self.poisoned.load(O::SeqCst)
    }
    pub fn clear_poison(&self) {
        self.poisoned.store(false, O::SeqCst)
    }
    pub fn get_mut(&mut self) -> LockResult<&mut T> {
        let p = self.poisoned.load(O::SeqCst);
        let v = self.data.get_mut();
        if p {
            Err(PoisonError::new(v))
        } else {
            Ok(v)
        }
    }
}

impl<T: ?Sized> Deref for MutexGuard<'_, T> {
    type Target = T;
    fn deref(&self) -> &T {
        unsafe { &*self.lock.data.get() }
    }
}
impl<T: ?Sized> DerefMut for MutexGuard<'_, T> {
    fn deref_mut(&mut self) -> &mut T {
        unsafe { &mut *self.lock.data.get() }
    }
}
impl<T: ?Sized> Drop for MutexGuard<'_, T> {
    fn drop(&mut self) {
        if std::thread::panicking() {
            self.lock.poisoned.store(true, O::SeqCst);
            // the execution is being torn down: releasing through shuttle is neither needed nor safe
            if let Held::Sim(g, _) = &mut self.held {
                std::mem::forget(g.take());
            }
        }
    }
}
impl<T: Default> Default for Mutex<T> {
    fn default() -> Self {
        Mutex::new(T::default())
    }
}
impl<T> From<T> for Mutex<T> {
    fn from(t: T) -> Self {
        Mutex::new(t)
    }
}
impl<T: ?Sized> fmt::Debug for Mutex<T> {
    fn fmt(&self, f: &mut fmt::Formatter<'_>) -> fmt::Result {
        f.write_str("Mutex { .. }")
    }
}
impl<T: ?Sized + fmt::Debug> fmt::Debug for MutexGuard<'_, T> {
    fn fmt(&self, f: &mut fmt::Formatter<'_>) -> fmt::Result {
        fmt::Debug::fmt(&**self, f)
    }
}

// ---------------------------------------------------------------------------------------------
// RwLock
// ---------------------------------------------------------------------------------------------

pub struct RwLock<T: ?Sized> {
    poisoned: AtomicBool,
    real: std::sync::RwLock<()>,
    data: UnsafeCell<T>,
}
unsafe impl<T: ?Sized + Send> Send for RwLock<T> {}
unsafe impl<T: ?Sized + Send + Sync> Sync for RwLock<T> {}
impl<T: ?Sized> std::panic::UnwindSafe for RwLock<T> {}
impl<T: ?Sized> std::panic::RefUnwindSafe for RwLock<T> {}

enum HeldR<'a> {
    Sim(Option<shuttle::sync::RwLockReadGuard<'static, ()>>, #[allow(dead_code)] StdArc<shuttle::sync::RwLock<()>>),
    Real(#[allow(dead_code)] std::sync::RwLockReadGuard<'a, ()>),
}
enum HeldW<'a> {
    Sim(Option<shuttle::sync::RwLockWriteGuard<'static, ()>>, #[allow(dead_code)] StdArc<shuttle::sync::RwLock<()>>),
    Real(#[allow(dead_code)] std::sync::RwLockWriteGuard<'a, ()>),
}
pub struct RwLockReadGuard<'a, T: ?Sized + 'a> {
    lock: &'a RwLock<T>,
    held: HeldR<'a>,
}
pub struct RwLockWriteGuard<'a, T: ?Sized + 'a> {
    lock: &'a RwLock<T>,
    held: HeldW<'a>,
}

impl<T> RwLock<T> {
    pub const fn new(t: T) -> Self {
        RwLock { poisoned: AtomicBool::new(false), real: std::sync::RwLock::new(()), data: UnsafeCell::new(t) }
    }
    pub fn into_inner(self) -> LockResult<T> {
        let p = self.poisoned.load(O::SeqCst);
        let v = self.data.into_inner();
        if p {
            Err(PoisonError::new(v))
        } else {
            Ok(v)
        }
    }
}
impl<T: ?Sized> RwLock<T> {
    pub fn read(&self) -> LockResult<RwLockReadGuard<'_, T>> {
        let held = if crate::active() {
            let m = exec_rwlock(addr_of(self));
            let g = m.read().unwrap_or_else(|e| e.into_inner());
            let g: shuttle::sync::RwLockReadGuard<'static, ()> = unsafe { std::mem::transmute(g) };
            HeldR::Sim(Some(g), m)
        } else {
            HeldR::Real(self.real.read().unwrap_or_else(|e| e.into_inner()))
        };
        let g = RwLockReadGuard { lock: self, held };
        if self.poisoned.load(O::SeqCst) {
            Err(PoisonError::new(g))
        } else {
            Ok(g)
        }
    }
    pub fn write(&self) -> LockResult<RwLockWriteGuard<'_, T>> {
        let held = if crate::active() {
            let m = exec_rwlock(addr_of(self));
            let g = m.write().unwrap_or_else(|e| e.into_inner());
            let g: shuttle::sync::RwLockWriteGuard<'static, ()> = unsafe { std::mem::transmute(g) };
            HeldW::Sim(Some(g), m)
        } else {
            HeldW::Real(self.real.write().unwrap_or_else(|e| e.into_inner()))
        };
        let g = RwLockWriteGuard { lock: self, held };
        if self.poisoned.load(O::SeqCst) {
            Err(PoisonError::new(g))
        } else {
            Ok(g)
        }
    }
    pub fn try_read(&self) -> TryLockResult<RwLockReadGuard<'_, T>> {
        let held = if crate::active() {
            let m = exec_rwlock(addr_of(self));
            let g = match m.try_read() {
                Ok(g) => g,
                Err(shuttle::sync::TryLockError::Poisoned(e)) => e.into_inner(),
                Err(shuttle::sync::TryLockError::WouldBlock) => return Err(TryLockError::WouldBlock),
            };
            let g: shuttle::sync::RwLockReadGuard<'static, ()> = unsafe { std::mem::transmute(g) };
            HeldR::Sim(Some(g), m)
        } else {
            match self.real.try_read() {
                Ok(g) => HeldR::Real(g),
                Err(TryLockError::Poisoned(e)) => HeldR::Real(e.into_inner()),
                Err(TryLockError::WouldBlock) => return Err(TryLockError::WouldBlock),
            }
        };
        let g = RwLockReadGuard { lock: self, held };
        if self.poisoned.load(O::SeqCst) {
            Err(TryLockError::Poisoned(PoisonError::new(g)))
        } else {
            Ok(g)
        }
    }
    pub fn try_write(&self) -> TryLockResult<RwLockWriteGuard<'_, T>> {
        let held = if crate::active() {
            let m = exec_rwlock(addr_of(self));
            let g = match m.try_write() {
                Ok(g) => g,
                Err(shuttle::sync::TryLockError::Poisoned(e)) => e.into_inner(),
                Err(shuttle::sync::TryLockError::WouldBlock) => return Err(TryLockError::WouldBlock),
            };
            let g: shuttle::sync::RwLockWriteGuard<'static, ()> = unsafe { std::mem::transmute(g) };
            HeldW::Sim(Some(g), m)
        } else {
            match self.real.try_write() {
                Ok(g) => HeldW::Real(g),
                Err(TryLockError::Poisoned(e)) => HeldW::Real(e.into_inner()),
                Err(TryLockError::WouldBlock) => return Err(TryLockError::WouldBlock),
            }
        };
        let g = RwLockWriteGuard { lock: self, held };
        if self.poisoned.load(O::SeqCst) {
            Err(TryLockError::Poisoned(PoisonError::new(g)))
        } else {
            Ok(g)
        }
    }
    pub fn is_poisoned(&self) -> bool {
        self.poisoned.load(O::SeqCst)
    }
    pub fn clear_poison(&self) {
        self.poisoned.store(false, O::SeqCst)
    }
    pub fn get_mut(&mut self) -> LockResult<&mut T> {
        let p = self.poisoned.load(O::SeqCst);
        let v = self.data.get_mut();
        if p {
            Err(PoisonError::new(v))
        } else {
            Ok(v)
        }
    }
}
impl<T: ?Sized> Deref for RwLockReadGuard<'_, T> {
    type Target = T;
    fn deref(&self) -> &T {
        unsafe { &*self.lock.data.get() }
    }
}
impl<T: ?Sized> Deref for RwLockWriteGuard<'_, T> {
    type Target = T;
    fn deref(&self) -> &T {
        unsafe { &*self.lock.data.get() }
    }
}
impl<T: ?Sized> DerefMut for RwLockWriteGuard<'_, T> {
    fn deref_mut(&mut self) -> &mut T {
        unsafe { &mut *self.lock.data.get() }
    }
}
impl<T: ?Sized> Drop for RwLockReadGuard<'_, T> {
    fn drop(&mut self) {
        if std::thread::panicking() {
            if let HeldR::Sim(g, _) = &mut self.held {
                std::mem::forget(g.take());
            }
        }
    }
}
impl<T: ?Sized> Drop for RwLockWriteGuard<'_, T> {
    fn drop(&mut self) {
        if std::thread::panicking() {
            self.lock.poisoned.store(true, O::SeqCst);
            if let HeldW::Sim(g, _) = &mut self.held {
                std::mem::forget(g.take());
            }
        }
    }
}
impl<T: Default> Default for RwLock<T> {
    fn default() -> Self {
        RwLock::new(T::default())
    }
}
impl<T> From<T> for RwLock<T> {
    fn from(t: T) -> Self {
        RwLock::new(t)
    }
}
impl<T: ?Sized> fmt::Debug for RwLock<T> {
    fn fmt(&self, f: &mut fmt::Formatter<'_>) -> fmt::Result {
        f.write_str("RwLock { .. }")
    }
}

// ---------------------------------------------------------------------------------------------
// Once, OnceLock, LazyLock: the value (and "done") live for the process; a task that finds the
// cell empty initialises it under a per-execution simulated lock, so that an initialiser with a
// scheduling point inside cannot block the OS thread
// ---------------------------------------------------------------------------------------------

pub struct OnceLock<T> {
    inner: std::sync::OnceLock<T>,
}
impl<T> OnceLock<T> {
    pub const fn new() -> Self {
        OnceLock { inner: std::sync::OnceLock::new() }
    }
    pub fn get(&self) -> Option<&T> {
        crate::sched_point();
        self.inner.get()
    }
    pub fn get_mut(&mut self) -> Option<&mut T> {
        self.inner.get_mut()
    }
    pub fn set(&self, value: T) -> Result<(), T> {
        crate::sched_point();
        self.inner.set(value)
    }
    pub fn get_or_init<F: FnOnce() -> T>(&self, f: F) -> &T {
        if let Some(v) = self.inner.get() {
            return v;
        }
        if crate::active() {
            let m = exec_mutex(addr_of(self));
            let _g = m.lock().unwrap_or_else(|e| e.into_inner());
            if let Some(v) = self.inner.get() {
                return v;
            }
            let v = f();
            let _ = self.inner.set(v);
            self.inner.get().expect("just set")
        } else {
            self.inner.get_or_init(f)
        }
    }
    pub fn into_inner(self) -> Option<T> {
        self.inner.into_inner()
    }
    pub fn take(&mut self) -> Option<T> {
        self.inner.take()
    }
}
impl<T> Default for OnceLock<T> {
    fn default() -> Self {
        OnceLock::new()
    }
}
impl<T: fmt::Debug> fmt::Debug for OnceLock<T> {
    fn fmt(&self, f: &mut fmt::Formatter<'_>) -> fmt::Result {
        fmt::Debug::fmt(&self.inner, f)
    }
}
impl<T: Clone> Clone for OnceLock<T> {
    fn clone(&self) -> Self {
        OnceLock { inner: self.inner.clone() }
    }
}
impl<T> From<T> for OnceLock<T> {
    fn from(t: T) -> Self {
        OnceLock { inner: std::sync::OnceLock::from(t) }
    }
}

pub struct Once {
    inner: std::sync::Once,
}
pub use std::sync::OnceState;
impl Once {
    pub const fn new() -> Self {
        Once { inner: std::sync::Once::new() }
    }
    pub fn is_completed(&self) -> bool {
        self.inner.is_completed()
    }
    pub fn call_once<F: FnOnce()>(&self, f: F) {
        if self.inner.is_completed() {
            return;
        }
        if crate::active() {
            let m = exec_mutex(addr_of(self));
            let _g = m.lock().unwrap_or_else(|e| e.into_inner());
            self.inner.call_once(f);
        } else {
            self.inner.call_once(f);
        }
    }
    pub fn call_once_force<F: FnOnce(&OnceState)>(&self, f: F) {
        if self.inner.is_completed() {
            return;
        }
        if crate::active() {
            let m = exec_mutex(addr_of(self));
            let _g = m.lock().unwrap_or_else(|e| e.into_inner());
            self.inner.call_once_force(f);
        } else {
            self.inner.call_once_force(f);
        }
    }
}
impl fmt::Debug for Once {
    fn fmt(&self, f: &mut fmt::Formatter<'_>) -> fmt::Result {
        f.write_str("Once { .. }")
    }
}

pub struct LazyLock<T, F = fn() -> T> {
    cell: OnceLock<T>,
    init: std::sync::Mutex<Option<F>>,
}
impl<T, F: FnOnce() -> T> LazyLock<T, F> {
    pub const fn new(f: F) -> Self {
        LazyLock { cell: OnceLock::new(), init: std::sync::Mutex::new(Some(f)) }
    }
    pub fn force(this: &LazyLock<T, F>) -> &T {
        this.cell.get_or_init(|| {
            let f = this.init.lock().unwrap_or_else(|e| e.into_inner()).take().expect("LazyLock instance has previously been poisoned");
            f()
        })
    }
}
impl<T, F: FnOnce() -> T> Deref for LazyLock<T, F> {
    type Target = T;
    fn deref(&self) -> &T {
        LazyLock::force(self)
    }
}
impl<T: fmt::Debug, F> fmt::Debug for LazyLock<T, F> {
    fn fmt(&self, f: &mut fmt::Formatter<'_>) -> fmt::Result {
        fmt::Debug::fmt(&self.cell, f)
    }
}

// ---------------------------------------------------------------------------------------------
// Atomics: std's (they never block), with a scheduling point in front of every access
// ---------------------------------------------------------------------------------------------

pub mod atomic {
    pub use std::sync::atomic::{compiler_fence, fence, Ordering};

    macro_rules! int_atomic {
        ($name:ident, $t:ty) => {
            #[derive(Default)]
            pub struct $name(std::sync::atomic::$name);
            impl $name {
                pub const fn new(v: $t) -> Self {
                    $name(std::sync::atomic::$name::new(v))
                }
                pub fn load(&self, o: Ordering) -> $t {
                    crate::sched_point();
                    self.0.load(o)
                }
                pub fn store(&self, v: $t, o: Ordering) {
                    crate::sched_point();
                    self.0.store(v, o)
                }
                pub fn swap(&self, v: $t, o: Ordering) -> $t {
                    crate::sched_point();
                    self.0.swap(v, o)
                }
                pub fn compare_exchange(&self, c: $t, n: $t, s: Ordering, f: Ordering) -> Result<$t, $t> {
                    crate::sched_point();
                    self.0.compare_exchange(c, n, s, f)
                }
                pub fn compare_exchange_weak(&self, c: $t, n: $t, s: Ordering, f: Ordering) -> Result<$t, $t> {
                    crate::sched_point();
                    self.0.compare_exchange(c, n, s, f)
                }
                pub fn fetch_add(&self, v: $t, o: Ordering) -> $t {
                    crate::sched_point();
                    self.0.fetch_add(v, o)
                }
                pub fn fetch_sub(&self, v: $t, o: Ordering) -> $t {
                    crate::sched_point();
                    self.0.fetch_sub(v, o)
                }
                pub fn fetch_and(&self, v: $t, o: Ordering) -> $t {
                    crate::sched_point();
                    self.0.fetch_and(v, o)
                }
                pub fn fetch_or(&self, v: $t, o: Ordering) -> $t {
                    crate::sched_point();
                    self.0.fetch_or(v, o)
                }
                pub fn fetch_xor(&self, v: $t, o: Ordering) -> $t {
                    crate::sched_point();
                    self.0.fetch_xor(v, o)
                }
                pub fn fetch_nand(&self, v: $t, o: Ordering) -> $t {
                    crate::sched_point();
                    self.0.fetch_nand(v, o)
                }
                pub fn fetch_max(&self, v: $t, o: Ordering) -> $t {
                    crate::sched_point();
                    self.0.fetch_max(v, o)
                }
                pub fn fetch_min(&self, v: $t, o: Ordering) -> $t {
                    crate::sched_point();
                    self.0.fetch_min(v, o)
                }
                pub fn fetch_update<F: FnMut($t) -> Option<$t>>(&self, s: Ordering, f: Ordering, g: F) -> Result<$t, $t> {
                    crate::sched_point();
                    self.0.fetch_update(s, f, g)
                }
                pub fn get_mut(&mut self) -> &mut $t {
                    self.0.get_mut()
                }
                pub fn into_inner(self) -> $t {
                    self.0.into_inner()
                }
            }
            impl From<$t> for $name {
                fn from(v: $t) -> Self {
                    $name::new(v)
                }
            }
            impl std::fmt::Debug for $name {
                fn fmt(&self, f: &mut std::fmt::Formatter<'_>) -> std::fmt::Result {
                    std::fmt::Debug::fmt(&self.0, f)
                }
            }
        };
    }
    int_atomic!(AtomicUsize, usize);
    int_atomic!(AtomicIsize, isize);
    int_atomic!(AtomicU64, u64);
    int_atomic!(AtomicI64, i64);
    int_atomic!(AtomicU32, u32);
    int_atomic!(AtomicI32, i32);
    int_atomic!(AtomicU16, u16);
    int_atomic!(AtomicI16, i16);
    int_atomic!(AtomicU8, u8);
    int_atomic!(AtomicI8, i8);

    #[derive(Default)]
    pub struct AtomicBool(std::sync::atomic::AtomicBool);
    impl AtomicBool {
        pub const fn new(v: bool) -> Self {
            AtomicBool(std::sync::atomic::AtomicBool::new(v))
        }
        pub fn load(&self, o: Ordering) -> bool {
            crate::sched_point();
            self.0.load(o)
        }
        pub fn store(&self, v: bool, o: Ordering) {
            crate::sched_point();
            self.0.store(v, o)
        }
        pub fn swap(&self, v: bool, o: Ordering) -> bool {
            crate::sched_point();
            self.0.swap(v, o)
        }
        pub fn compare_exchange(&self, c: bool, n: bool, s: Ordering, f: Ordering) -> Result<bool, bool> {
            crate::sched_point();
            self.0.compare_exchange(c, n, s, f)
        }
        pub fn compare_exchange_weak(&self, c: bool, n: bool, s: Ordering, f: Ordering) -> Result<bool, bool> {
            crate::sched_point();
            self.0.compare_exchange(c, n, s, f)
        }
        pub fn fetch_and(&self, v: bool, o: Ordering) -> bool {
            crate::sched_point();
            self.0.fetch_and(v, o)
        }
        pub fn fetch_or(&self, v: bool, o: Ordering) -> bool {
            crate::sched_point();
            self.0.fetch_or(v, o)
        }
        pub fn fetch_xor(&self, v: bool, o: Ordering) -> bool {
            crate::sched_point();
            self.0.fetch_xor(v, o)
        }
        pub fn fetch_nand(&self, v: bool, o: Ordering) -> bool {
            crate::sched_point();
            self.0.fetch_nand(v, o)
        }
        pub fn fetch_update<F: FnMut(bool) -> Option<bool>>(&self, s: Ordering, f: Ordering, g: F) -> Result<bool, bool> {
            crate::sched_point();
            self.0.fetch_update(s, f, g)
        }
        pub fn get_mut(&mut self) -> &mut bool {
            self.0.get_mut()
        }
        pub fn into_inner(self) -> bool {
            self.0.into_inner()
        }
    }
    impl From<bool> for AtomicBool {
        fn from(v: bool) -> Self {
            AtomicBool::new(v)
        }
    }
    impl std::fmt::Debug for AtomicBool {
        fn fmt(&self, f: &mut std::fmt::Formatter<'_>) -> std::fmt::Result {
            std::fmt::Debug::fmt(&self.0, f)
        }
    }

    pub struct AtomicPtr<T>(std::sync::atomic::AtomicPtr<T>);
    impl<T> AtomicPtr<T> {
        pub const fn new(p: *mut T) -> Self {
            AtomicPtr(std::sync::atomic::AtomicPtr::new(p))
        }
        pub fn load(&self, o: Ordering) -> *mut T {
            crate::sched_point();
            self.0.load(o)
        }
        pub fn store(&self, p: *mut T, o: Ordering) {
            crate::sched_point();
            self.0.store(p, o)
        }
        pub fn swap(&self, p: *mut T, o: Ordering) -> *mut T {
            crate::sched_point();
            self.0.swap(p, o)
        }
        pub fn compare_exchange(&self, c: *mut T, n: *mut T, s: Ordering, f: Ordering) -> Result<*mut T, *mut T> {
            crate::sched_point();
            self.0.compare_exchange(c, n, s, f)
        }
    }
}
