//! Model of `thread_local!` for simulated tasks.
//!
//! All simulated tasks of a run are coroutines on ONE OS thread, so std's thread-locals would be
//! shared by tasks that model different threads (a `RefCell` borrowed by a pre-empted task would
//! be "already borrowed" for the next one: an artefact). shuttle's own thread-locals are per
//! task and die with it, whereas the threads being modelled (the caller's, a rayon pool's
//! workers) live on from call to call, and state kept in their thread-locals with them: exactly
//! what history-dependent defects live on.
//!
//! Here every simulated task has a THREAD IDENTITY: the lowest number no live task of the
//! execution holds, taken when the task first touches a thread-local and given back when it
//! ends (a task standing in for a thread that is blocked on it adopts that thread's identity
//! instead, see sim-rayon). The value of a key for an identity is created on first use and lives
//! for the process. Concurrently live tasks never share a value; consecutive par_iter calls,
//! consecutive executions and consecutive scenarios of a shard do, like calls served by the
//! same long-lived threads. Outside a simulated run each OS thread is its own identity.

use std::cell::{Cell, RefCell};
use std::collections::HashMap;

const OUTSIDE: u64 = 1 << 32;

thread_local! {
    // engine-OS-thread side: identities held by live tasks of the current execution
    static IN_USE: RefCell<(u64, Vec<bool>)> = RefCell::new((0, Vec::new()));
    static OS_ID: Cell<u64> = const { Cell::new(0) };
}
static NEXT_OS_ID: std::sync::atomic::AtomicU64 = std::sync::atomic::AtomicU64::new(1);

struct Held {
    id: u64,
    owned: bool,
    epoch: u64,
}
impl Drop for Held {
    fn drop(&mut self) {
        if self.owned {
            let (id, ep) = (self.id as usize, self.epoch);
            let _ = IN_USE.try_with(|u| {
                if let Ok(mut u) = u.try_borrow_mut() {
                    if u.0 == ep && id < u.1.len() {
                        u.1[id] = false;
                    }
                }
            });
        }
    }
}

shuttle::thread_local! {
    static TASK_ID: RefCell<Option<Held>> = RefCell::new(None);
}

fn acquire() -> Held {
    let ep = crate::epoch();
    let id = IN_USE.with(|u| {
        let mut u = u.borrow_mut();
        if u.0 != ep {
            u.0 = ep;
            u.1.clear();
        }
        let k = u.1.iter().position(|b| !*b).unwrap_or(u.1.len());
        if k == u.1.len() {
            u.1.push(true);
        } else {
            u.1[k] = true;
        }
        k as u64
    });
    Held { id, owned: true, epoch: ep }
}

/// Thread identity of the caller.
pub fn current_identity() -> u64 {
    if crate::active() {
        TASK_ID.with(|t| {
            let mut t = t.borrow_mut();
            if t.is_none() {
                *t = Some(acquire());
            }
            t.as_ref().unwrap().id
        })
    } else {
        OUTSIDE
            + OS_ID.with(|c| {
                if c.get() == 0 {
                    c.set(NEXT_OS_ID.fetch_add(1, std::sync::atomic::Ordering::SeqCst));
                }
                c.get()
            })
    }
}

/// The calling task stands in for the thread with identity `id` (which is blocked on it until
/// the task ends): it sees that thread's thread-locals. No effect once the task has an identity.
pub fn adopt(id: u64) {
    if crate::active() {
        TASK_ID.with(|t| {
            let mut t = t.borrow_mut();
            if t.is_none() {
                *t = Some(Held { id, owned: false, epoch: crate::epoch() });
            }
        });
    }
}

pub struct LocalKey<T: 'static> {
    init: fn() -> T,
    slots: std::sync::Mutex<Option<HashMap<u64, usize>>>,
}

// values are only ever handed to the task/thread whose identity they belong to
unsafe impl<T: 'static> Sync for LocalKey<T> {}

pub use std::thread::AccessError;

impl<T: 'static> LocalKey<T> {
    #[doc(hidden)]
    pub const fn new(init: fn() -> T) -> Self {
        LocalKey { init, slots: std::sync::Mutex::new(None) }
    }
    fn slot(&'static self) -> &'static T {
        let id = current_identity();
        let found = self.slots.lock().unwrap_or_else(|e| e.into_inner()).get_or_insert_with(HashMap::new).get(&id).copied();
        let p = match found {
            Some(p) => p,
            None => {
                // the initialiser runs without the table lock (it may use other keys, or this one)
                let b: &'static mut T = Box::leak(Box::new((self.init)()));
                let p = b as *mut T as usize;
                *self.slots.lock().unwrap_or_else(|e| e.into_inner()).get_or_insert_with(HashMap::new).entry(id).or_insert(p)
            }
        };
        unsafe { &*(p as *const T) }
    }
    pub fn with<F, R>(&'static self, f: F) -> R
    where
        F: FnOnce(&T) -> R,
    {
        f(self.slot())
    }
    pub fn try_with<F, R>(&'static self, f: F) -> Result<R, AccessError>
    where
        F: FnOnce(&T) -> R,
    {
        Ok(f(self.slot()))
    }
}

impl<T: 'static> LocalKey<Cell<T>> {
    pub fn set(&'static self, value: T) {
        self.with(|c| c.set(value))
    }
    pub fn get(&'static self) -> T
    where
        T: Copy,
    {
        self.with(|c| c.get())
    }
    pub fn take(&'static self) -> T
    where
        T: Default,
    {
        self.with(|c| c.take())
    }
    pub fn replace(&'static self, value: T) -> T {
        self.with(|c| c.replace(value))
    }
}

impl<T: 'static> LocalKey<RefCell<T>> {
    pub fn with_borrow<F, R>(&'static self, f: F) -> R
    where
        F: FnOnce(&T) -> R,
    {
        self.with(|c| f(&c.borrow()))
    }
    pub fn with_borrow_mut<F, R>(&'static self, f: F) -> R
    where
        F: FnOnce(&mut T) -> R,
    {
        self.with(|c| f(&mut c.borrow_mut()))
    }
    pub fn set(&'static self, value: T) {
        self.with(|c| *c.borrow_mut() = value)
    }
    pub fn take(&'static self) -> T
    where
        T: Default,
    {
        self.with(|c| c.take())
    }
    pub fn replace(&'static self, value: T) -> T {
        self.with(|c| c.replace(value))
    }
}

/// Drop-in for `std::thread_local!` (same syntax, including `const { .. }` initialisers).
#[macro_export]
macro_rules! sim_thread_local {
    () => {};
    ($(#[$attr:meta])* $vis:vis static $name:ident: $t:ty = const { $init:expr }; $($rest:tt)*) => (
        $crate::__sim_thread_local_inner!($(#[$attr])* $vis $name, $t, $init);
        $crate::sim_thread_local!($($rest)*);
    );
    ($(#[$attr:meta])* $vis:vis static $name:ident: $t:ty = const { $init:expr }) => (
        $crate::__sim_thread_local_inner!($(#[$attr])* $vis $name, $t, $init);
    );
    ($(#[$attr:meta])* $vis:vis static $name:ident: $t:ty = $init:expr; $($rest:tt)*) => (
        $crate::__sim_thread_local_inner!($(#[$attr])* $vis $name, $t, $init);
        $crate::sim_thread_local!($($rest)*);
    );
    ($(#[$attr:meta])* $vis:vis static $name:ident: $t:ty = $init:expr) => (
        $crate::__sim_thread_local_inner!($(#[$attr])* $vis $name, $t, $init);
    );
}

#[doc(hidden)]
#[macro_export]
macro_rules! __sim_thread_local_inner {
    ($(#[$attr:meta])* $vis:vis $name:ident, $t:ty, $init:expr) => {
        $(#[$attr])* $vis static $name: $crate::tls::LocalKey<$t> = {
            fn __init() -> $t {
                $init
            }
            $crate::tls::LocalKey::new(__init)
        };
    };
}
