//! Per-run simulator context shared by the seams (sim-rayon, sim-rand) and the harness.
//!
//! A simulated run executes entirely on one OS thread (shuttle tasks are coroutines resumed one
//! at a time on the thread that owns the run), so a plain `std::thread_local!` is a per-run
//! context: the harness installs it before the run and takes it back afterwards.
//!
//! Nothing in here reads a clock, the environment or the OS RNG. Every decision made by a stub
//! comes from a stream seeded by the harness, and every decision is folded into `log`, a 128-bit
//! hash of the complete event sequence used by the determinism self-test and by replay.

use std::cell::RefCell;

// ---------------------------------------------------------------------------------------------
// PRNG: splitmix64 for seeding / hashing, xoshiro256** for streams
// ---------------------------------------------------------------------------------------------

#[inline]
pub fn splitmix64(x: &mut u64) -> u64 {
    *x = x.wrapping_add(0x9E37_79B9_7F4A_7C15);
    let mut z = *x;
    z = (z ^ (z >> 30)).wrapping_mul(0xBF58_476D_1CE4_E5B9);
    z = (z ^ (z >> 27)).wrapping_mul(0x94D0_49BB_1331_11EB);
    z ^ (z >> 31)
}

/// Mix a list of words into one (used to derive independent stream seeds from
/// `(VERIF_SEED, shard, run, stream-name)`).
pub fn mix(words: &[u64]) -> u64 {
    let mut s = 0x243F_6A88_85A3_08D3u64;
    let mut out = 0u64;
    for w in words {
        s ^= *w;
        out = splitmix64(&mut s) ^ out.rotate_left(23);
    }
    let mut t = out ^ (words.len() as u64);
    splitmix64(&mut t)
}

pub fn name_hash(name: &str) -> u64 {
    let mut h = 0xcbf2_9ce4_8422_2325u64;
    for b in name.bytes() {
        h ^= b as u64;
        h = h.wrapping_mul(0x1000_0000_01b3);
    }
    h
}

#[derive(Clone, Debug)]
pub struct Rng {
    s: [u64; 4],
}

impl Rng {
    /// First state word (used as a seed carrier).
    pub fn s0(&self) -> u64 {
        self.s[0]
    }
    pub fn new(seed: u64) -> Self {
        let mut x = seed;
        let s = [
            splitmix64(&mut x),
            splitmix64(&mut x),
            splitmix64(&mut x),
            splitmix64(&mut x),
        ];
        Rng { s }
    }
    pub fn derive(seed: u64, shard: u64, run: u64, stream: &str) -> Self {
        Rng::new(mix(&[seed, shard, run, name_hash(stream)]))
    }
    #[inline]
    pub fn next_u64(&mut self) -> u64 {
        let result = self.s[1].wrapping_mul(5).rotate_left(7).wrapping_mul(9);
        let t = self.s[1] << 17;
        self.s[2] ^= self.s[0];
        self.s[3] ^= self.s[1];
        self.s[1] ^= self.s[2];
        self.s[0] ^= self.s[3];
        self.s[2] ^= t;
        self.s[3] = self.s[3].rotate_left(45);
        result
    }
    /// Uniform in [0,1) with 53 bits.
    #[inline]
    pub fn unit(&mut self) -> f64 {
        (self.next_u64() >> 11) as f64 * (1.0 / (1u64 << 53) as f64)
    }
    /// Uniform integer in [0,n) (n > 0); slight modulo bias is irrelevant here.
    #[inline]
    pub fn below(&mut self, n: usize) -> usize {
        debug_assert!(n > 0);
        ((self.next_u64() >> 11) % (n as u64)) as usize
    }
    #[inline]
    pub fn range_usize(&mut self, lo: usize, hi_incl: usize) -> usize {
        lo + self.below(hi_incl - lo + 1)
    }
    #[inline]
    pub fn range_f64(&mut self, lo: f64, hi: f64) -> f64 {
        lo + (hi - lo) * self.unit()
    }
    #[inline]
    pub fn chance(&mut self, p: f64) -> bool {
        self.unit() < p
    }
    pub fn pick<'a, T>(&mut self, xs: &'a [T]) -> &'a T {
        &xs[self.below(xs.len())]
    }
}

// ---------------------------------------------------------------------------------------------
// Event-log hash
// ---------------------------------------------------------------------------------------------

#[derive(Clone, Copy, Debug, PartialEq, Eq, Default)]
pub struct LogHash {
    pub a: u64,
    pub b: u64,
    pub n: u64,
}

impl LogHash {
    #[inline]
    pub fn push(&mut self, tag: u8, x: u64, y: u64) {
        self.n += 1;
        let mut s = self.a ^ (tag as u64).wrapping_mul(0x9E37_79B9_7F4A_7C15) ^ x.rotate_left(17) ^ y.rotate_left(41);
        self.a = splitmix64(&mut s);
        let mut t = self.b ^ x.wrapping_mul(0xD6E8_FEB8_6659_FD93) ^ y.rotate_left(7) ^ (tag as u64) ^ self.n;
        self.b = splitmix64(&mut t);
    }
    pub fn hex(&self) -> String {
        format!("{:016x}{:016x}", self.a, self.b)
    }
}

// ---------------------------------------------------------------------------------------------
// Random-outcome seam (consumed by sim-rand)
// ---------------------------------------------------------------------------------------------

/// One outcome handed to the code under test for one `gen_range`-style draw.
#[derive(Clone, Copy, Debug, PartialEq)]
pub enum Outcome {
    /// `low + u * (high - low)`, clamped below `high` for half-open ranges.
    U(f64),
    /// exactly `low`
    Low,
    /// the largest representable value below `high` (half-open) or `high` itself (inclusive)
    HighMinus,
    /// exactly this value if it lies in the range, else falls back to `U(0.5)`
    Abs(f64),
}

/// Where outcomes come from.
#[derive(Clone, Debug)]
pub enum RngPlan {
    /// Outcomes drawn from a stream; with probability `adversarial` a draw is replaced by a
    /// legal boundary outcome (Low, HighMinus, repeat of the previous u, one of `abs` for the
    /// draw's position modulo `abs_period`).
    Stream { rng: Rng, adversarial: f64 },
    /// Outcomes replayed from an explicit list; after the list is exhausted, `U(0.5)`.
    List { items: Vec<Outcome>, pos: usize },
}

#[derive(Clone, Copy, Debug, PartialEq, Eq)]
pub enum TakePolicy {
    Front,
    Back,
    Random,
    Chunks,
}

/// Kinds of seam events (for the log and for fault plans).
pub const EV_SCHED: u8 = 1;
pub const EV_TAKE: u8 = 2;
pub const EV_RNG: u8 = 3;
pub const EV_SEAM: u8 = 4;
pub const EV_WINNER: u8 = 5;
pub const EV_RESULT: u8 = 6;
pub const EV_FAULT: u8 = 7;
pub const EV_PAR: u8 = 8;

#[derive(Debug)]
pub struct Ctx {
    /// true while inside a simulated execution (set by the harness inside the shuttle closure)
    pub active: bool,
    /// rayon pool size modelled for this run (1..=16)
    pub pool: usize,
    pub take: TakePolicy,
    /// nested par_iter inside a worker spawns its own workers (true) or runs inline (false)
    pub inner_full: bool,
    /// current par_iter nesting depth (maintained by sim-rayon)
    pub depth: usize,
    /// simulated worker tasks that may still be spawned in this execution; when it runs out,
    /// parallel iterators run in order on the calling task (shuttle keeps every task's stack
    /// mapped until the execution ends, and the OS limits the number of mappings)
    pub spawn_budget: u64,
    /// auxiliary stream for decisions taken by the stubs themselves
    pub aux: Rng,
    pub rng: RngPlan,
    /// every outcome actually handed out, in order (replay feeds this back as RngPlan::List)
    pub rng_record: Vec<Outcome>,
    pub rng_prev_u: f64,
    /// the previous complete vector of uniform outcomes (for the "repeat the sample" outcome)
    pub prev_vec: std::collections::HashMap<u64, Vec<f64>>,
    pub prev_vec_next: std::collections::HashMap<u64, Vec<f64>>,
    /// optional absolute targets: `abs[k][i]` is tried for draw number `n` with `i = n % abs_period`
    pub abs: Vec<Vec<f64>>,
    pub abs_period: usize,
    pub log: LogHash,
    /// simulated monotonic clock (nanoseconds); read through `simctx::time::Instant`
    pub clock_ns: u64,
    /// how far the clock advances per scheduling decision and per clock read
    pub clock_tick_ns: u64,
    /// injected clock jumps: at the n-th clock read (0-based) the clock leaps forward by that much
    pub clock_jumps: Vec<(u64, u64)>,
    pub n_clock_reads: u64,
    pub n_clock_jumps_fired: u64,
    /// logical position of each simulated task in the tree of parallel-iterator items:
    /// task id -> stack of path hashes (maintained by sim-rayon)
    pub paths: std::collections::HashMap<usize, Vec<u64>>,
    /// parallel-iterator calls made so far under a path (gives every call a stable id)
    pub path_calls: std::collections::HashMap<u64, u64>,
    /// random draws made so far under a path
    pub path_draws: std::collections::HashMap<u64, u64>,
    // ---- reach counters (measured, reported in evidence) ----
    pub n_rng: u64,
    pub n_rng_adversarial: u64,
    pub n_par_calls: u64,
    pub n_par_items: u64,
    pub n_par_multiworker: u64,
    pub n_find_any_races: u64,
    pub n_find_any_multi: u64,
    pub n_skipped_after_found: u64,
    pub max_workers: usize,
    pub n_nested: u64,
    pub n_budget_inline: u64,
    /// a pool thread blocked on nested parallel work may run further items of the enclosing
    /// parallel iterator meanwhile (rayon's work stealing while blocked)
    pub steal: bool,
    pub n_steals_attempted: u64,
    pub n_steals_ran: u64,
}

impl Ctx {
    pub fn idle() -> Self {
        Ctx {
            active: false,
            pool: 1,
            take: TakePolicy::Front,
            inner_full: true,
            depth: 0,
            spawn_budget: 2500,
            aux: Rng::new(0),
            rng: RngPlan::Stream { rng: Rng::new(0), adversarial: 0.0 },
            rng_record: Vec::new(),
            rng_prev_u: 0.5,
            prev_vec: std::collections::HashMap::new(),
            prev_vec_next: std::collections::HashMap::new(),
            abs: Vec::new(),
            abs_period: 6,
            log: LogHash::default(),
            clock_ns: 1_000_000_000,
            clock_tick_ns: 1_000,
            clock_jumps: Vec::new(),
            n_clock_reads: 0,
            n_clock_jumps_fired: 0,
            paths: std::collections::HashMap::new(),
            path_calls: std::collections::HashMap::new(),
            path_draws: std::collections::HashMap::new(),
            n_rng: 0,
            n_rng_adversarial: 0,
            n_par_calls: 0,
            n_par_items: 0,
            n_par_multiworker: 0,
            n_find_any_races: 0,
            n_find_any_multi: 0,
            n_skipped_after_found: 0,
            max_workers: 0,
            n_nested: 0,
            n_budget_inline: 0,
            steal: true,
            n_steals_attempted: 0,
            n_steals_ran: 0,
        }
    }

    pub fn current_path(&self, task: usize) -> u64 {
        self.paths.get(&task).and_then(|v| v.last().copied()).unwrap_or(0)
    }

    /// Next outcome for a random draw made by simulated task `task`. Called only by sim-rand.
    ///
    /// Stream outcomes are keyed by the LOGICAL position of the drawing code (the path of
    /// parallel-iterator items it runs under) and the number of draws made there so far, not by
    /// the global draw order: the random outcomes a given strategy / item sees do not change with
    /// the schedule unless the code's own behaviour does.
    pub fn next_outcome(&mut self, task: usize) -> Outcome {
        self.n_rng += 1;
        let path = self.current_path(task);
        let k = {
            let e = self.path_draws.entry(path).or_insert(0);
            *e += 1;
            *e - 1
        };
        let o = match &mut self.rng {
            RngPlan::List { items, pos } => {
                let o = if *pos < items.len() { items[*pos] } else { Outcome::U(0.5) };
                *pos += 1;
                o
            }
            RngPlan::Stream { rng, adversarial } => {
                // `rng` is only the seed carrier here: one derived generator per (path, draw index)
                let base = rng.s0();
                let period = self.abs_period.max(1) as u64;
                let (group, i) = (k / period, (k % period) as usize);
                // adversarial outcomes are decided per VECTOR (group of `period` consecutive
                // draws, e.g. the six joints of one sample), so that a whole sample can be
                // "exactly the goal", "a point next to the start", "the lower corner" ...
                let mut g = Rng::new(mix(&[base, path, group, 0x6A0]));
                let vector_adv = *adversarial > 0.0 && g.unit() < *adversarial;
                let mut r = Rng::new(mix(&[base, path, k]));
                let u = r.unit();
                if vector_adv {
                    let kinds = if self.abs.is_empty() { 3 } else { 6 };
                    match g.below(kinds) {
                        0 => Outcome::Low,
                        1 => Outcome::HighMinus,
                        2 => Outcome::U(self.prev_vec.get(&path).and_then(|v| v.get(i)).copied().unwrap_or(0.5)),
                        _ => {
                            let which = g.below(self.abs.len());
                            match self.abs[which].get(i) {
                                Some(v) => Outcome::Abs(*v),
                                None => Outcome::U(u),
                            }
                        }
                    }
                } else if *adversarial > 0.0 && r.unit() < *adversarial * 0.15 {
                    // isolated boundary outcome on one component
                    if r.chance(0.5) {
                        Outcome::Low
                    } else {
                        Outcome::HighMinus
                    }
                } else {
                    Outcome::U(u)
                }
            }
        };
        {
            // "previous sample" is kept per logical path, like everything else about the stream
            let period = self.abs_period.max(1);
            let i = (k as usize) % period;
            let next = self.prev_vec_next.entry(path).or_insert_with(|| vec![0.5; period]);
            if next.len() != period {
                *next = vec![0.5; period];
            }
            if let Outcome::U(u) = o {
                next[i] = u;
            }
            if i + 1 == period {
                let done = next.clone();
                self.prev_vec.insert(path, done);
            }
        }
        match o {
            Outcome::U(u) => self.rng_prev_u = u,
            _ => self.n_rng_adversarial += 1,
        }
        self.rng_record.push(o);
        o
    }
}

thread_local! {
    static CTX: RefCell<Ctx> = RefCell::new(Ctx::idle());
}

/// Access the context of the run executing on this OS thread.
pub fn with<R>(f: impl FnOnce(&mut Ctx) -> R) -> R {
    CTX.with(|c| f(&mut c.borrow_mut()))
}

/// Install a fresh context, returning the previous one.
pub fn install(ctx: Ctx) -> Ctx {
    EPOCH.with(|e| e.set(e.get() + 1));
    CTX.with(|c| std::mem::replace(&mut *c.borrow_mut(), ctx))
}

thread_local! {
    static EPOCH: std::cell::Cell<u64> = const { std::cell::Cell::new(0) };
}

/// Counts context installations on this OS thread: everything that must not outlive one
/// simulated execution (per-execution lock tables, thread identities in use) is tagged with it.
pub fn epoch() -> u64 {
    EPOCH.with(|e| e.get())
}

/// A scheduling point, inside a simulated run; nothing outside.
#[inline]
pub fn sched_point() {
    if active() {
        shuttle::thread::yield_now();
    }
}

pub mod sync;
pub mod tls;

pub fn active() -> bool {
    CTX.with(|c| c.borrow().active)
}

/// Append an event to the run's log hash.
#[inline]
pub fn log(tag: u8, x: u64, y: u64) {
    CTX.with(|c| c.borrow_mut().log.push(tag, x, y));
}


/// `std::thread::sleep` / `yield_now` for code under test that may run inside OR outside a
/// simulated run (C18 and C19 call the library directly on a driver thread for most of their
/// evaluations): inside, the call is a scheduling point and the simulated clock advances by the
/// requested time; outside, the simulated clock advances and nothing blocks (no real sleep: a
/// check must not depend on, or wait for, the wall clock). shuttle's own `sleep` panics outside
/// an execution, which would be reported as a panic of the library.
pub mod thread {
    pub fn sleep(d: std::time::Duration) {
        super::with(|c| c.clock_ns = c.clock_ns.saturating_add(u64::try_from(d.as_nanos()).unwrap_or(u64::MAX)));
        if super::active() {
            shuttle::thread::sleep(std::time::Duration::from_nanos(0));
        }
    }
    pub fn yield_now() {
        if super::active() {
            shuttle::thread::yield_now();
        }
    }
}

// ---------------------------------------------------------------------------------------------
// Simulated clock
// ---------------------------------------------------------------------------------------------

/// Drop-in for the part of `std::time` a library uses for deadlines and measurements. The clock
/// is simulated: it advances by a configured tick per scheduling decision and per read, and the
/// fault injector can make it leap. Outside a simulated run it still works (it just ticks).
pub mod time {
    pub use std::time::Duration;
    use std::ops::{Add, AddAssign, Sub, SubAssign};

    #[derive(Clone, Copy, Debug, PartialEq, Eq, PartialOrd, Ord, Hash)]
    pub struct Instant {
        ns: u64,
    }

    impl Instant {
        pub fn now() -> Instant {
            let ns = super::with(|c| {
                let n = c.n_clock_reads;
                c.n_clock_reads += 1;
                c.clock_ns = c.clock_ns.saturating_add(c.clock_tick_ns);
                let mut fired = 0;
                for (at, by) in c.clock_jumps.iter() {
                    if *at == n {
                        c.clock_ns = c.clock_ns.saturating_add(*by);
                        fired += 1;
                    }
                }
                c.n_clock_jumps_fired += fired;
                c.clock_ns
            });
            super::log(super::EV_FAULT, 9, ns);
            Instant { ns }
        }
        pub fn elapsed(&self) -> Duration {
            Instant::now().saturating_duration_since(*self)
        }
        pub fn duration_since(&self, earlier: Instant) -> Duration {
            self.saturating_duration_since(earlier)
        }
        pub fn saturating_duration_since(&self, earlier: Instant) -> Duration {
            Duration::from_nanos(self.ns.saturating_sub(earlier.ns))
        }
        pub fn checked_duration_since(&self, earlier: Instant) -> Option<Duration> {
            self.ns.checked_sub(earlier.ns).map(Duration::from_nanos)
        }
        pub fn checked_add(&self, d: Duration) -> Option<Instant> {
            u64::try_from(d.as_nanos()).ok().and_then(|n| self.ns.checked_add(n)).map(|ns| Instant { ns })
        }
        pub fn checked_sub(&self, d: Duration) -> Option<Instant> {
            u64::try_from(d.as_nanos()).ok().and_then(|n| self.ns.checked_sub(n)).map(|ns| Instant { ns })
        }
    }
    impl Add<Duration> for Instant {
        type Output = Instant;
        fn add(self, d: Duration) -> Instant {
            self.checked_add(d).expect("overflow when adding duration to instant")
        }
    }
    impl Sub<Duration> for Instant {
        type Output = Instant;
        fn sub(self, d: Duration) -> Instant {
            self.checked_sub(d).expect("overflow when subtracting duration from instant")
        }
    }
    impl Sub<Instant> for Instant {
        type Output = Duration;
        fn sub(self, o: Instant) -> Duration {
            self.saturating_duration_since(o)
        }
    }
    impl AddAssign<Duration> for Instant {
        fn add_assign(&mut self, d: Duration) {
            *self = *self + d;
        }
    }
    impl SubAssign<Duration> for Instant {
        fn sub_assign(&mut self, d: Duration) {
            *self = *self - d;
        }
    }
}
