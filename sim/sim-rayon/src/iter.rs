//! Parallel iterators of the rayon contract model. See the crate documentation.

use simctx::TakePolicy;
use std::marker::PhantomData;
use std::sync::Mutex as StdMutex;

// ---------------------------------------------------------------------------------------------
// Core trait
// ---------------------------------------------------------------------------------------------

/// A parallel iterator: `src_len()` source items; `produce(i, sink)` runs the whole adaptor
/// pipeline for source item `i` on the calling worker and hands every resulting value to `sink`.
pub trait ParallelIterator: Sized + Send + Sync {
    type Item: Send;

    #[doc(hidden)]
    fn src_len(&self) -> usize;
    #[doc(hidden)]
    fn produce(&self, i: usize, sink: &mut dyn FnMut(Self::Item));
    /// false for sources whose order rayon does not preserve (`par_bridge`)
    #[doc(hidden)]
    fn ordered(&self) -> bool {
        true
    }

    // ---- adaptors ----
    fn fold<T, ID, F>(self, identity: ID, fold_op: F) -> Map<Self, impl Fn(Self::Item) -> T + Sync + Send>
    where
        F: Fn(T, Self::Item) -> T + Sync + Send,
        ID: Fn() -> T + Sync + Send,
        T: Send,
    {
        // rayon does not say how many folds there are; one per item is the finest legal split
        Map { base: self, f: move |x| fold_op(identity(), x) }
    }
    fn map_with<T, F, R>(self, init: T, map_op: F) -> Map<Self, impl Fn(Self::Item) -> R + Sync + Send>
    where
        F: Fn(&mut T, Self::Item) -> R + Sync + Send,
        T: Send + Sync + Clone,
        R: Send,
    {
        Map { base: self, f: move |x| map_op(&mut init.clone(), x) }
    }
    fn map_init<T, INIT, F, R>(self, init: INIT, map_op: F) -> Map<Self, impl Fn(Self::Item) -> R + Sync + Send>
    where
        F: Fn(&mut T, Self::Item) -> R + Sync + Send,
        INIT: Fn() -> T + Sync + Send,
        R: Send,
    {
        Map { base: self, f: move |x| map_op(&mut init(), x) }
    }
    fn update<F>(self, f: F) -> Map<Self, impl Fn(Self::Item) -> Self::Item + Sync + Send>
    where
        F: Fn(&mut Self::Item) + Sync + Send,
    {
        Map {
            base: self,
            f: move |mut x| {
                f(&mut x);
                x
            },
        }
    }
    fn panic_fuse(self) -> Self {
        self
    }
    fn for_each_with<T, F>(self, init: T, op: F)
    where
        F: Fn(&mut T, Self::Item) + Sync + Send,
        T: Send + Sync + Clone,
    {
        self.for_each(move |x| op(&mut init.clone(), x))
    }
    fn for_each_init<T, INIT, F>(self, init: INIT, op: F)
    where
        F: Fn(&mut T, Self::Item) + Sync + Send,
        INIT: Fn() -> T + Sync + Send,
    {
        self.for_each(move |x| op(&mut init(), x))
    }
    fn try_for_each<F, E>(self, f: F) -> Result<(), E>
    where
        F: Fn(Self::Item) -> Result<(), E> + Sync + Send,
        E: Send,
    {
        let m = FilterMap { base: self, f: move |x| f(x).err() };
        match pick_any(drive(&m, Short::Any)) {
            Some(e) => Err(e),
            None => Ok(()),
        }
    }
    fn partition<A, B, P>(self, predicate: P) -> (A, B)
    where
        A: Default + Extend<Self::Item>,
        B: Default + Extend<Self::Item>,
        P: Fn(&Self::Item) -> bool + Sync + Send,
    {
        let mut a = A::default();
        let mut b = B::default();
        for x in collect_vec(&self) {
            if predicate(&x) {
                a.extend(std::iter::once(x));
            } else {
                b.extend(std::iter::once(x));
            }
        }
        (a, b)
    }
    fn unzip<A, B, FromA, FromB>(self) -> (FromA, FromB)
    where
        Self: ParallelIterator<Item = (A, B)>,
        FromA: Default + Extend<A>,
        FromB: Default + Extend<B>,
        A: Send,
        B: Send,
    {
        let mut fa = FromA::default();
        let mut fb = FromB::default();
        for (x, y) in collect_vec(&self) {
            fa.extend(std::iter::once(x));
            fb.extend(std::iter::once(y));
        }
        (fa, fb)
    }
    fn map<F, R>(self, f: F) -> Map<Self, F>
    where
        F: Fn(Self::Item) -> R + Sync + Send,
        R: Send,
    {
        Map { base: self, f }
    }
    fn filter<P>(self, p: P) -> Filter<Self, P>
    where
        P: Fn(&Self::Item) -> bool + Sync + Send,
    {
        Filter { base: self, p }
    }
    fn filter_map<F, R>(self, f: F) -> FilterMap<Self, F>
    where
        F: Fn(Self::Item) -> Option<R> + Sync + Send,
        R: Send,
    {
        FilterMap { base: self, f }
    }
    fn flat_map_iter<F, U>(self, f: F) -> FlatMapIter<Self, F>
    where
        F: Fn(Self::Item) -> U + Sync + Send,
        U: IntoIterator,
        U::Item: Send,
    {
        FlatMapIter { base: self, f }
    }
    fn flat_map<F, PI>(self, f: F) -> FlatMap<Self, F>
    where
        F: Fn(Self::Item) -> PI + Sync + Send,
        PI: IntoParallelIterator,
    {
        FlatMap { base: self, f }
    }
    fn flatten_iter(self) -> FlatMapIter<Self, fn(Self::Item) -> Self::Item>
    where
        Self::Item: IntoIterator,
        <Self::Item as IntoIterator>::Item: Send,
    {
        fn id<T>(t: T) -> T {
            t
        }
        FlatMapIter { base: self, f: id::<Self::Item> }
    }
    fn inspect<F>(self, f: F) -> Inspect<Self, F>
    where
        F: Fn(&Self::Item) + Sync + Send,
    {
        Inspect { base: self, f }
    }
    fn cloned<'a, T>(self) -> Cloned<Self>
    where
        T: 'a + Clone + Send + Sync,
        Self: ParallelIterator<Item = &'a T>,
    {
        Cloned { base: self }
    }
    fn copied<'a, T>(self) -> Copied<Self>
    where
        T: 'a + Copy + Send + Sync,
        Self: ParallelIterator<Item = &'a T>,
    {
        Copied { base: self }
    }
    fn chain<C>(self, other: C) -> Chain<Self, C::Iter>
    where
        C: IntoParallelIterator<Item = Self::Item>,
    {
        Chain { a: self, b: other.into_par_iter() }
    }

    // ---- consumers ----
    fn for_each<F>(self, f: F)
    where
        F: Fn(Self::Item) + Sync + Send,
    {
        let m = Map { base: self, f: |x| f(x) };
        let _ = drive(&m, Short::No);
    }
    fn collect<C>(self) -> C
    where
        C: FromParallelIterator<Self::Item>,
    {
        C::from_par_iter(self)
    }
    fn count(self) -> usize {
        drive(&self, Short::No).into_iter().map(|(_, v)| v.len()).sum()
    }
    fn sum<S>(self) -> S
    where
        S: Send + std::iter::Sum<Self::Item>,
    {
        in_order(drive(&self, Short::No)).into_iter().sum()
    }
    fn reduce<OP, ID>(self, identity: ID, op: OP) -> Self::Item
    where
        OP: Fn(Self::Item, Self::Item) -> Self::Item + Sync + Send,
        ID: Fn() -> Self::Item + Sync + Send,
    {
        in_order(drive(&self, Short::No)).into_iter().fold(identity(), |a, b| op(a, b))
    }
    fn reduce_with<OP>(self, op: OP) -> Option<Self::Item>
    where
        OP: Fn(Self::Item, Self::Item) -> Self::Item + Sync + Send,
    {
        in_order(drive(&self, Short::No)).into_iter().reduce(|a, b| op(a, b))
    }
    fn min_by<F>(self, f: F) -> Option<Self::Item>
    where
        F: Fn(&Self::Item, &Self::Item) -> std::cmp::Ordering + Sync + Send,
    {
        in_order(drive(&self, Short::No)).into_iter().min_by(|a, b| f(a, b))
    }
    fn max_by<F>(self, f: F) -> Option<Self::Item>
    where
        F: Fn(&Self::Item, &Self::Item) -> std::cmp::Ordering + Sync + Send,
    {
        in_order(drive(&self, Short::No)).into_iter().max_by(|a, b| f(a, b))
    }
    fn min_by_key<K: Ord + Send, F>(self, f: F) -> Option<Self::Item>
    where
        F: Fn(&Self::Item) -> K + Sync + Send,
    {
        in_order(drive(&self, Short::No)).into_iter().min_by_key(|a| f(a))
    }
    fn max_by_key<K: Ord + Send, F>(self, f: F) -> Option<Self::Item>
    where
        F: Fn(&Self::Item) -> K + Sync + Send,
    {
        in_order(drive(&self, Short::No)).into_iter().max_by_key(|a| f(a))
    }
    fn min(self) -> Option<Self::Item>
    where
        Self::Item: Ord,
    {
        in_order(drive(&self, Short::No)).into_iter().min()
    }
    fn max(self) -> Option<Self::Item>
    where
        Self::Item: Ord,
    {
        in_order(drive(&self, Short::No)).into_iter().max()
    }

    /// Some item satisfying the predicate; which one is the simulator's choice among the hits
    /// that were produced before the search wound down.
    fn find_any<P>(self, p: P) -> Option<Self::Item>
    where
        P: Fn(&Self::Item) -> bool + Sync + Send,
    {
        let f = Filter { base: self, p };
        pick_any(drive(&f, Short::Any))
    }
    fn find_first<P>(self, p: P) -> Option<Self::Item>
    where
        P: Fn(&Self::Item) -> bool + Sync + Send,
    {
        let f = Filter { base: self, p };
        in_order(drive(&f, Short::First)).into_iter().next()
    }
    fn find_map_any<F, R>(self, f: F) -> Option<R>
    where
        F: Fn(Self::Item) -> Option<R> + Sync + Send,
        R: Send,
    {
        let m = FilterMap { base: self, f };
        pick_any(drive(&m, Short::Any))
    }
    fn find_map_first<F, R>(self, f: F) -> Option<R>
    where
        F: Fn(Self::Item) -> Option<R> + Sync + Send,
        R: Send,
    {
        let m = FilterMap { base: self, f };
        in_order(drive(&m, Short::First)).into_iter().next()
    }
    fn any<P>(self, p: P) -> bool
    where
        P: Fn(Self::Item) -> bool + Sync + Send,
    {
        let m = FilterMap { base: self, f: |x| if p(x) { Some(()) } else { None } };
        !in_order(drive(&m, Short::Any)).is_empty()
    }
    fn all<P>(self, p: P) -> bool
    where
        P: Fn(Self::Item) -> bool + Sync + Send,
    {
        let m = FilterMap { base: self, f: |x| if p(x) { None } else { Some(()) } };
        in_order(drive(&m, Short::Any)).is_empty()
    }
    fn with_min_len(self, _n: usize) -> Self {
        self
    }
    fn with_max_len(self, _n: usize) -> Self {
        self
    }
}

/// Marker for iterators whose pipeline is one-to-one with the source (so positions are known).
pub trait IndexedParallelIterator: ParallelIterator {
    fn enumerate(self) -> Enumerate<Self> {
        Enumerate { base: self }
    }
    fn zip<Z>(self, other: Z) -> Zip<Self, Z::Iter>
    where
        Z: IntoParallelIterator,
        Z::Iter: IndexedParallelIterator,
    {
        Zip { a: self, b: other.into_par_iter() }
    }
    fn len(&self) -> usize {
        self.src_len()
    }
    fn collect_into_vec(self, target: &mut Vec<Self::Item>) {
        target.clear();
        target.extend(in_order(drive(&self, Short::No)));
    }
    fn position_any<P>(self, p: P) -> Option<usize>
    where
        P: Fn(Self::Item) -> bool + Sync + Send,
    {
        let m = FilterMap { base: Enumerate { base: self }, f: |(i, x)| if p(x) { Some(i) } else { None } };
        pick_any(drive(&m, Short::Any))
    }
    fn position_first<P>(self, p: P) -> Option<usize>
    where
        P: Fn(Self::Item) -> bool + Sync + Send,
    {
        let m = FilterMap { base: Enumerate { base: self }, f: |(i, x)| if p(x) { Some(i) } else { None } };
        in_order(drive(&m, Short::First)).into_iter().next()
    }
}

/// `par_extend` for the standard collections.
pub trait ParallelExtend<T: Send> {
    fn par_extend<I>(&mut self, par_iter: I)
    where
        I: IntoParallelIterator<Item = T>;
}
impl<T: Send, C: Extend<T>> ParallelExtend<T> for C {
    fn par_extend<I>(&mut self, par_iter: I)
    where
        I: IntoParallelIterator<Item = T>,
    {
        let p = par_iter.into_par_iter();
        self.extend(collect_vec(&p));
    }
}

pub trait FromParallelIterator<T: Send> {
    fn from_par_iter<I>(par_iter: I) -> Self
    where
        I: IntoParallelIterator<Item = T>;
}

impl<T: Send, C: FromIterator<T>> FromParallelIterator<T> for C {
    fn from_par_iter<I>(par_iter: I) -> Self
    where
        I: IntoParallelIterator<Item = T>,
    {
        let p = par_iter.into_par_iter();
        collect_vec(&p).into_iter().collect()
    }
}

pub trait IntoParallelIterator {
    type Iter: ParallelIterator<Item = Self::Item>;
    type Item: Send;
    fn into_par_iter(self) -> Self::Iter;
}

impl<P: ParallelIterator> IntoParallelIterator for P {
    type Iter = P;
    type Item = P::Item;
    fn into_par_iter(self) -> P {
        self
    }
}

pub trait IntoParallelRefIterator<'data> {
    type Iter: ParallelIterator<Item = Self::Item>;
    type Item: Send + 'data;
    fn par_iter(&'data self) -> Self::Iter;
}

impl<'data, I: 'data + ?Sized> IntoParallelRefIterator<'data> for I
where
    &'data I: IntoParallelIterator,
{
    type Iter = <&'data I as IntoParallelIterator>::Iter;
    type Item = <&'data I as IntoParallelIterator>::Item;
    fn par_iter(&'data self) -> Self::Iter {
        self.into_par_iter()
    }
}

pub trait IntoParallelRefMutIterator<'data> {
    type Iter: ParallelIterator<Item = Self::Item>;
    type Item: Send + 'data;
    fn par_iter_mut(&'data mut self) -> Self::Iter;
}

impl<'data, I: 'data + ?Sized> IntoParallelRefMutIterator<'data> for I
where
    &'data mut I: IntoParallelIterator,
{
    type Iter = <&'data mut I as IntoParallelIterator>::Iter;
    type Item = <&'data mut I as IntoParallelIterator>::Item;
    fn par_iter_mut(&'data mut self) -> Self::Iter {
        self.into_par_iter()
    }
}

// ---------------------------------------------------------------------------------------------
// Sources
// ---------------------------------------------------------------------------------------------

#[derive(Debug)]
pub struct SliceIter<'a, T: Sync> {
    pub(crate) s: &'a [T],
}
impl<'a, T: Sync + 'a> ParallelIterator for SliceIter<'a, T> {
    type Item = &'a T;
    fn src_len(&self) -> usize {
        self.s.len()
    }
    fn produce(&self, i: usize, sink: &mut dyn FnMut(&'a T)) {
        sink(&self.s[i])
    }
}
impl<'a, T: Sync + 'a> IndexedParallelIterator for SliceIter<'a, T> {}

#[derive(Debug)]
pub struct SliceIterMut<'a, T: Send> {
    ptr: *mut T,
    len: usize,
    _p: PhantomData<&'a mut [T]>,
}
// SAFETY: the driver produces every index exactly once, so no two `&mut` to one element exist.
unsafe impl<T: Send> Send for SliceIterMut<'_, T> {}
unsafe impl<T: Send> Sync for SliceIterMut<'_, T> {}
impl<'a, T: Send + 'a> ParallelIterator for SliceIterMut<'a, T> {
    type Item = &'a mut T;
    fn src_len(&self) -> usize {
        self.len
    }
    fn produce(&self, i: usize, sink: &mut dyn FnMut(&'a mut T)) {
        assert!(i < self.len);
        sink(unsafe { &mut *self.ptr.add(i) })
    }
}
impl<'a, T: Send + 'a> IndexedParallelIterator for SliceIterMut<'a, T> {}

#[derive(Debug)]
pub struct VecIter<T: Send> {
    items: Vec<StdMutex<Option<T>>>,
}
impl<T: Send> ParallelIterator for VecIter<T> {
    type Item = T;
    fn src_len(&self) -> usize {
        self.items.len()
    }
    fn produce(&self, i: usize, sink: &mut dyn FnMut(T)) {
        if let Some(t) = self.items[i].lock().unwrap().take() {
            sink(t)
        }
    }
}
impl<T: Send> IndexedParallelIterator for VecIter<T> {}

#[derive(Debug)]
pub struct RangeIter<T> {
    start: T,
    len: usize,
}

macro_rules! range_impl {
    ($($t:ty),*) => {$(
        impl ParallelIterator for RangeIter<$t> {
            type Item = $t;
            fn src_len(&self) -> usize { self.len }
            fn produce(&self, i: usize, sink: &mut dyn FnMut($t)) { sink(self.start + i as $t) }
        }
        impl IndexedParallelIterator for RangeIter<$t> {}
        impl IntoParallelIterator for std::ops::Range<$t> {
            type Iter = RangeIter<$t>;
            type Item = $t;
            fn into_par_iter(self) -> RangeIter<$t> {
                let len = if self.end > self.start { (self.end - self.start) as usize } else { 0 };
                RangeIter { start: self.start, len }
            }
        }
        impl IntoParallelIterator for std::ops::RangeInclusive<$t> {
            type Iter = RangeIter<$t>;
            type Item = $t;
            fn into_par_iter(self) -> RangeIter<$t> {
                let (s, e) = (*self.start(), *self.end());
                let len = if e >= s { (e - s) as usize + 1 } else { 0 };
                RangeIter { start: s, len }
            }
        }
    )*};
}
range_impl!(usize, u8, u16, u32, u64, i8, i16, i32, i64, isize);

impl<T: Send> IntoParallelIterator for Vec<T> {
    type Iter = VecIter<T>;
    type Item = T;
    fn into_par_iter(self) -> VecIter<T> {
        VecIter { items: self.into_iter().map(|t| StdMutex::new(Some(t))).collect() }
    }
}
impl<T: Send, const N: usize> IntoParallelIterator for [T; N] {
    type Iter = VecIter<T>;
    type Item = T;
    fn into_par_iter(self) -> VecIter<T> {
        VecIter { items: self.into_iter().map(|t| StdMutex::new(Some(t))).collect() }
    }
}
impl<'a, T: Sync + 'a> IntoParallelIterator for &'a Vec<T> {
    type Iter = SliceIter<'a, T>;
    type Item = &'a T;
    fn into_par_iter(self) -> SliceIter<'a, T> {
        SliceIter { s: self.as_slice() }
    }
}
impl<'a, T: Sync + 'a> IntoParallelIterator for &'a [T] {
    type Iter = SliceIter<'a, T>;
    type Item = &'a T;
    fn into_par_iter(self) -> SliceIter<'a, T> {
        SliceIter { s: self }
    }
}
impl<'a, T: Sync + 'a, const N: usize> IntoParallelIterator for &'a [T; N] {
    type Iter = SliceIter<'a, T>;
    type Item = &'a T;
    fn into_par_iter(self) -> SliceIter<'a, T> {
        SliceIter { s: &self[..] }
    }
}
impl<'a, T: Send + 'a> IntoParallelIterator for &'a mut Vec<T> {
    type Iter = SliceIterMut<'a, T>;
    type Item = &'a mut T;
    fn into_par_iter(self) -> SliceIterMut<'a, T> {
        SliceIterMut { ptr: self.as_mut_ptr(), len: self.len(), _p: PhantomData }
    }
}
impl<'a, T: Send + 'a> IntoParallelIterator for &'a mut [T] {
    type Iter = SliceIterMut<'a, T>;
    type Item = &'a mut T;
    fn into_par_iter(self) -> SliceIterMut<'a, T> {
        SliceIterMut { ptr: self.as_mut_ptr(), len: self.len(), _p: PhantomData }
    }
}
impl<'a, T: Send + 'a, const N: usize> IntoParallelIterator for &'a mut [T; N] {
    type Iter = SliceIterMut<'a, T>;
    type Item = &'a mut T;
    fn into_par_iter(self) -> SliceIterMut<'a, T> {
        SliceIterMut { ptr: self.as_mut_ptr(), len: N, _p: PhantomData }
    }
}

// ---------------------------------------------------------------------------------------------
// Adaptors
// ---------------------------------------------------------------------------------------------

#[derive(Debug)]
pub struct Map<I, F> {
    base: I,
    f: F,
}
impl<I, F, R> ParallelIterator for Map<I, F>
where
    I: ParallelIterator,
    F: Fn(I::Item) -> R + Sync + Send,
    R: Send,
{
    type Item = R;
    fn src_len(&self) -> usize {
        self.base.src_len()
    }
    fn ordered(&self) -> bool {
        self.base.ordered()
    }
    fn produce(&self, i: usize, sink: &mut dyn FnMut(R)) {
        self.base.produce(i, &mut |t| sink((self.f)(t)))
    }
}
impl<I, F, R> IndexedParallelIterator for Map<I, F>
where
    I: IndexedParallelIterator,
    F: Fn(I::Item) -> R + Sync + Send,
    R: Send,
{
}

#[derive(Debug)]
pub struct Filter<I, P> {
    base: I,
    p: P,
}
impl<I, P> ParallelIterator for Filter<I, P>
where
    I: ParallelIterator,
    P: Fn(&I::Item) -> bool + Sync + Send,
{
    type Item = I::Item;
    fn src_len(&self) -> usize {
        self.base.src_len()
    }
    fn ordered(&self) -> bool {
        self.base.ordered()
    }
    fn produce(&self, i: usize, sink: &mut dyn FnMut(I::Item)) {
        self.base.produce(i, &mut |t| {
            if (self.p)(&t) {
                sink(t)
            }
        })
    }
}

#[derive(Debug)]
pub struct FilterMap<I, F> {
    base: I,
    f: F,
}
impl<I, F, R> ParallelIterator for FilterMap<I, F>
where
    I: ParallelIterator,
    F: Fn(I::Item) -> Option<R> + Sync + Send,
    R: Send,
{
    type Item = R;
    fn src_len(&self) -> usize {
        self.base.src_len()
    }
    fn ordered(&self) -> bool {
        self.base.ordered()
    }
    fn produce(&self, i: usize, sink: &mut dyn FnMut(R)) {
        self.base.produce(i, &mut |t| {
            if let Some(r) = (self.f)(t) {
                sink(r)
            }
        })
    }
}

#[derive(Debug)]
pub struct FlatMapIter<I, F> {
    base: I,
    f: F,
}
impl<I, F, U> ParallelIterator for FlatMapIter<I, F>
where
    I: ParallelIterator,
    F: Fn(I::Item) -> U + Sync + Send,
    U: IntoIterator,
    U::Item: Send,
{
    type Item = U::Item;
    fn src_len(&self) -> usize {
        self.base.src_len()
    }
    fn ordered(&self) -> bool {
        self.base.ordered()
    }
    fn produce(&self, i: usize, sink: &mut dyn FnMut(U::Item)) {
        self.base.produce(i, &mut |t| {
            for u in (self.f)(t) {
                sink(u)
            }
        })
    }
}

#[derive(Debug)]
pub struct FlatMap<I, F> {
    base: I,
    f: F,
}
impl<I, F, PI> ParallelIterator for FlatMap<I, F>
where
    I: ParallelIterator,
    F: Fn(I::Item) -> PI + Sync + Send,
    PI: IntoParallelIterator,
{
    type Item = PI::Item;
    fn src_len(&self) -> usize {
        self.base.src_len()
    }
    fn ordered(&self) -> bool {
        self.base.ordered()
    }
    fn produce(&self, i: usize, sink: &mut dyn FnMut(PI::Item)) {
        self.base.produce(i, &mut |t| {
            let inner = (self.f)(t).into_par_iter();
            for v in in_order(drive(&inner, Short::No)) {
                sink(v)
            }
        })
    }
}

#[derive(Debug)]
pub struct Inspect<I, F> {
    base: I,
    f: F,
}
impl<I, F> ParallelIterator for Inspect<I, F>
where
    I: ParallelIterator,
    F: Fn(&I::Item) + Sync + Send,
{
    type Item = I::Item;
    fn src_len(&self) -> usize {
        self.base.src_len()
    }
    fn ordered(&self) -> bool {
        self.base.ordered()
    }
    fn produce(&self, i: usize, sink: &mut dyn FnMut(I::Item)) {
        self.base.produce(i, &mut |t| {
            (self.f)(&t);
            sink(t)
        })
    }
}
impl<I, F> IndexedParallelIterator for Inspect<I, F>
where
    I: IndexedParallelIterator,
    F: Fn(&I::Item) + Sync + Send,
{
}

#[derive(Debug)]
pub struct Cloned<I> {
    base: I,
}
impl<'a, T, I> ParallelIterator for Cloned<I>
where
    T: 'a + Clone + Send + Sync,
    I: ParallelIterator<Item = &'a T>,
{
    type Item = T;
    fn src_len(&self) -> usize {
        self.base.src_len()
    }
    fn ordered(&self) -> bool {
        self.base.ordered()
    }
    fn produce(&self, i: usize, sink: &mut dyn FnMut(T)) {
        self.base.produce(i, &mut |t| sink(t.clone()))
    }
}
impl<'a, T, I> IndexedParallelIterator for Cloned<I>
where
    T: 'a + Clone + Send + Sync,
    I: IndexedParallelIterator<Item = &'a T>,
{
}

#[derive(Debug)]
pub struct Copied<I> {
    base: I,
}
impl<'a, T, I> ParallelIterator for Copied<I>
where
    T: 'a + Copy + Send + Sync,
    I: ParallelIterator<Item = &'a T>,
{
    type Item = T;
    fn src_len(&self) -> usize {
        self.base.src_len()
    }
    fn ordered(&self) -> bool {
        self.base.ordered()
    }
    fn produce(&self, i: usize, sink: &mut dyn FnMut(T)) {
        self.base.produce(i, &mut |t| sink(*t))
    }
}
impl<'a, T, I> IndexedParallelIterator for Copied<I>
where
    T: 'a + Copy + Send + Sync,
    I: IndexedParallelIterator<Item = &'a T>,
{
}

#[derive(Debug)]
pub struct Enumerate<I> {
    base: I,
}
impl<I: IndexedParallelIterator> ParallelIterator for Enumerate<I> {
    type Item = (usize, I::Item);
    fn src_len(&self) -> usize {
        self.base.src_len()
    }
    fn ordered(&self) -> bool {
        self.base.ordered()
    }
    fn produce(&self, i: usize, sink: &mut dyn FnMut((usize, I::Item))) {
        self.base.produce(i, &mut |t| sink((i, t)))
    }
}
impl<I: IndexedParallelIterator> IndexedParallelIterator for Enumerate<I> {}

#[derive(Debug)]
pub struct Chain<A, B> {
    a: A,
    b: B,
}
impl<A, B> ParallelIterator for Chain<A, B>
where
    A: ParallelIterator,
    B: ParallelIterator<Item = A::Item>,
{
    type Item = A::Item;
    fn src_len(&self) -> usize {
        self.a.src_len() + self.b.src_len()
    }
    fn produce(&self, i: usize, sink: &mut dyn FnMut(A::Item)) {
        let n = self.a.src_len();
        if i < n {
            self.a.produce(i, sink)
        } else {
            self.b.produce(i - n, sink)
        }
    }
}
impl<A, B> IndexedParallelIterator for Chain<A, B>
where
    A: IndexedParallelIterator,
    B: IndexedParallelIterator<Item = A::Item>,
{
}

#[derive(Debug)]
pub struct Zip<A, B> {
    a: A,
    b: B,
}
impl<A, B> ParallelIterator for Zip<A, B>
where
    A: IndexedParallelIterator,
    B: IndexedParallelIterator,
{
    type Item = (A::Item, B::Item);
    fn src_len(&self) -> usize {
        self.a.src_len().min(self.b.src_len())
    }
    fn produce(&self, i: usize, sink: &mut dyn FnMut((A::Item, B::Item))) {
        let mut left: Option<A::Item> = None;
        self.a.produce(i, &mut |x| left = Some(x));
        if let Some(x) = left {
            let mut cell = Some(x);
            self.b.produce(i, &mut |y| {
                if let Some(x) = cell.take() {
                    sink((x, y))
                }
            });
        }
    }
}
impl<A, B> IndexedParallelIterator for Zip<A, B>
where
    A: IndexedParallelIterator,
    B: IndexedParallelIterator,
{
}

// ---------------------------------------------------------------------------------------------
// The driver: runs a pipeline on simulated workers
// ---------------------------------------------------------------------------------------------

#[derive(Clone, Copy, PartialEq, Eq, Debug)]
pub(crate) enum Short {
    /// run every item
    No,
    /// stop handing out items once any item produced output
    Any,
    /// items to the right of the leftmost producing item may be skipped
    First,
}

/// All outputs: in source order for ordered pipelines, in completion order otherwise.
pub(crate) fn collect_vec<P: ParallelIterator>(p: &P) -> Vec<P::Item> {
    let res = drive(p, Short::No);
    if p.ordered() {
        in_order(res)
    } else {
        res.into_iter().flat_map(|(_, o)| o).collect()
    }
}

/// Flatten per-item outputs in source order.
pub(crate) fn in_order<T>(mut v: Vec<(usize, Vec<T>)>) -> Vec<T> {
    v.sort_by_key(|(i, _)| *i);
    v.into_iter().flat_map(|(_, o)| o).collect()
}

/// Choose one hit among the items that produced output (simulator's choice inside a run,
/// leftmost outside).
fn pick_any<T>(mut v: Vec<(usize, Vec<T>)>) -> Option<T> {
    v.retain(|(_, o)| !o.is_empty());
    if v.is_empty() {
        return None;
    }
    v.sort_by_key(|(i, _)| *i);
    let k = simctx::with(|c| {
        c.n_find_any_races += 1;
        if v.len() > 1 {
            c.n_find_any_multi += 1;
        }
        if c.active && v.len() > 1 {
            c.aux.below(v.len())
        } else {
            0
        }
    });
    let (idx, mut outs) = v.swap_remove(k);
    simctx::log(simctx::EV_WINNER, idx as u64, outs.len() as u64);
    Some(outs.swap_remove(0))
}

fn me() -> usize {
    if simctx::active() {
        shuttle::current::get_current_task().map(usize::from).unwrap_or(0)
    } else {
        0
    }
}

/// Run `f` as item `i` of parallel-iterator call `call` made under path `parent`.
fn under_item<R>(parent: u64, call: u64, i: usize, f: impl FnOnce() -> R) -> R {
    let task = me();
    let p = simctx::mix(&[parent, call, i as u64, 0x17E4]);
    simctx::with(|c| c.paths.entry(task).or_default().push(p));
    let r = f();
    simctx::with(|c| {
        if let Some(v) = c.paths.get_mut(&task) {
            v.pop();
        }
    });
    r
}

/// The pool's threads. An execution has `pool` slots; a task runs items only while it is bound to
/// a slot, so at most `pool` items are in progress at any time, `rayon::current_thread_index()`
/// is the slot, and the slot is the thread identity whose thread-locals the task sees. A worker
/// that blocks in a nested parallel call keeps its slot and lends it to one inner worker. A
/// caller that is not a pool thread waits until at least one slot is free.
pub(crate) mod slots {
    use std::cell::RefCell;
    use std::collections::HashMap;
    use std::sync::Arc;

    struct Table {
        free: shuttle::sync::Mutex<Vec<bool>>,
        freed: shuttle::sync::Condvar,
    }

    thread_local! {
        static TABLE: RefCell<(u64, Option<Arc<Table>>)> = RefCell::new((0, None));
        static BOUND: RefCell<(u64, HashMap<usize, Vec<usize>>)> = RefCell::new((0, HashMap::new()));
    }

    fn table(pool: usize) -> Arc<Table> {
        let epoch = simctx::epoch();
        TABLE.with(|t| {
            let mut t = t.borrow_mut();
            if t.0 != epoch || t.1.is_none() {
                if let Some(old) = t.1.take() {
                    // a task of an aborted execution may still be parked on it
                    std::mem::forget(old);
                }
                t.0 = epoch;
                t.1 = Some(Arc::new(Table { free: shuttle::sync::Mutex::new(vec![true; pool.max(1)]), freed: shuttle::sync::Condvar::new() }));
            }
            t.1.as_ref().unwrap().clone()
        })
    }

    /// Slot the task is bound to (innermost binding).
    pub fn of(task: usize) -> Option<usize> {
        if !simctx::active() {
            return None;
        }
        let epoch = simctx::epoch();
        BOUND.with(|b| {
            let b = b.borrow();
            if b.0 != epoch {
                return None;
            }
            b.1.get(&task).and_then(|v| v.last().copied())
        })
    }

    pub struct Bound(usize, u64);
    pub fn bind(task: usize, slot: usize) -> Bound {
        let epoch = simctx::epoch();
        BOUND.with(|b| {
            let mut b = b.borrow_mut();
            if b.0 != epoch {
                b.0 = epoch;
                b.1.clear();
            }
            b.1.entry(task).or_default().push(slot);
        });
        Bound(task, epoch)
    }
    impl Drop for Bound {
        fn drop(&mut self) {
            let _ = BOUND.try_with(|b| {
                if let Ok(mut b) = b.try_borrow_mut() {
                    if b.0 == self.1 {
                        if let Some(v) = b.1.get_mut(&self.0) {
                            v.pop();
                        }
                    }
                }
            });
        }
    }

    /// Take up to `max` free slots; `at_least_one` waits until one is free. How many of the free
    /// ones are taken, and which, is the stubs' stream's decision (the other threads of the pool
    /// are busy elsewhere or slow to pick up work).
    pub fn take(pool: usize, max: usize, at_least_one: bool) -> Vec<usize> {
        if max == 0 {
            return Vec::new();
        }
        let t = table(pool);
        let mut free = t.free.lock().unwrap();
        loop {
            let avail: Vec<usize> = free.iter().enumerate().filter(|(_, f)| **f).map(|(i, _)| i).collect();
            if avail.is_empty() {
                if !at_least_one {
                    return Vec::new();
                }
                free = t.freed.wait(free).unwrap();
                continue;
            }
            let most = avail.len().min(max);
            let k = simctx::with(|c| if c.aux.unit() < 0.6 { most } else { 1 + c.aux.below(most) });
            let k = if at_least_one { k.max(1) } else { k };
            let mut pick = avail;
            let mut out = Vec::with_capacity(k);
            for _ in 0..k {
                let i = simctx::with(|c| c.aux.below(pick.len()));
                out.push(pick.swap_remove(i));
            }
            for s in &out {
                free[*s] = false;
            }
            return out;
        }
    }

    pub struct Release(pub usize, pub usize);
    impl Drop for Release {
        fn drop(&mut self) {
            if std::thread::panicking() {
                return;
            }
            let t = table(self.0);
            let mut free = t.free.lock().unwrap();
            if self.1 < free.len() {
                free[self.1] = true;
            }
            drop(free);
            t.freed.notify_all();
        }
    }

    /// Thread identity (for thread-locals) of a pool slot.
    pub fn identity(slot: usize) -> u64 {
        (1u64 << 20) + slot as u64
    }
}

/// Registry of "run one more item of the parallel iterator I am a worker of", per task: what a
/// pool thread can pick up while it is blocked on nested work.
mod steal {
    use std::cell::RefCell;
    use std::collections::HashMap;

    #[derive(Clone, Copy)]
    pub struct StepPtr(pub *const (dyn Fn() -> bool + 'static));

    thread_local! {
        static STACKS: RefCell<(u64, HashMap<usize, Vec<StepPtr>>)> = RefCell::new((0, HashMap::new()));
    }

    pub struct Registered {
        task: usize,
        epoch: u64,
    }

    impl Registered {
        pub fn new<'a>(task: usize, f: &'a (dyn Fn() -> bool + 'a)) -> Registered {
            let epoch = simctx::epoch();
            // lifetime erased: the entry is removed when this guard drops, before `f` does
            let p: *const (dyn Fn() -> bool + 'a) = f;
            let p: *const (dyn Fn() -> bool + 'static) = unsafe { std::mem::transmute(p) };
            STACKS.with(|s| {
                let mut s = s.borrow_mut();
                if s.0 != epoch {
                    s.0 = epoch;
                    s.1.clear();
                }
                s.1.entry(task).or_default().push(StepPtr(p));
            });
            Registered { task, epoch }
        }
    }

    impl Drop for Registered {
        fn drop(&mut self) {
            let _ = STACKS.try_with(|s| {
                if let Ok(mut s) = s.try_borrow_mut() {
                    if s.0 == self.epoch {
                        if let Some(v) = s.1.get_mut(&self.task) {
                            v.pop();
                        }
                    }
                }
            });
        }
    }

    thread_local! {
        static STEALING: RefCell<(u64, std::collections::HashSet<usize>)> = RefCell::new((0, std::collections::HashSet::new()));
    }

    /// May `task` start picking up outer items (it is not already inside a picked-up item)?
    pub fn enter(task: usize) -> bool {
        let epoch = simctx::epoch();
        STEALING.with(|s| {
            let mut s = s.borrow_mut();
            if s.0 != epoch {
                s.0 = epoch;
                s.1.clear();
            }
            s.1.insert(task)
        })
    }

    pub struct Leave(pub usize, pub bool);
    impl Drop for Leave {
        fn drop(&mut self) {
            let _ = STEALING.try_with(|s| {
                if let Ok(mut s) = s.try_borrow_mut() {
                    if self.1 {
                        s.1.remove(&self.0);
                    }
                }
            });
        }
    }

    pub fn top(task: usize) -> Option<StepPtr> {
        if !simctx::active() {
            return None;
        }
        let epoch = simctx::epoch();
        STACKS.with(|s| {
            let s = s.borrow();
            if s.0 != epoch {
                return None;
            }
            s.1.get(&task).and_then(|v| v.last().copied())
        })
    }
}

struct Queue {
    /// per-worker [lo, hi) ranges (Chunks) or a single shared range in slot 0 (other policies)
    ranges: Vec<(usize, usize)>,
    /// explicit remaining list for the Random policy
    pool: Vec<usize>,
}

pub(crate) fn drive<P: ParallelIterator>(p: &P, short: Short) -> Vec<(usize, Vec<P::Item>)> {
    crate::touch_global_pool();
    let n = p.src_len();
    let (active, pool, take, nested_inline, depth) =
        simctx::with(|c| (c.active, c.pool.max(1), c.take, !c.inner_full, c.depth));
    simctx::with(|c| {
        c.n_par_calls += 1;
        c.n_par_items += n as u64;
        if depth > 0 {
            c.n_nested += 1;
        }
    });
    // stable identity of this call in the tree of parallel items
    let (parent, call) = {
        let task = me();
        simctx::with(|c| {
            let parent = c.current_path(task);
            let e = c.path_calls.entry(parent).or_insert(0);
            *e += 1;
            (parent, *e - 1)
        })
    };
    let caller = me();
    let caller_slot = slots::of(caller);
    let mut wanted = if !active || (depth > 0 && nested_inline) { 1 } else { pool.min(n) };
    if wanted > 1 {
        let ok = simctx::with(|c| {
            if c.spawn_budget >= wanted as u64 {
                c.spawn_budget -= wanted as u64;
                true
            } else {
                c.n_budget_inline += 1;
                false
            }
        });
        if !ok {
            wanted = 1;
        }
    }
    // the pool threads that serve this call: the caller's own (if it is one) plus free ones
    let own = if caller_slot.is_some() { 1 } else { 0 };
    let granted: Vec<usize> = if active && n > 0 { slots::take(pool, wanted.max(1) - own.min(wanted.max(1)), own == 0) } else { Vec::new() };
    let workers = if active { (own + granted.len()).max(1) } else { 1 };
    simctx::log(simctx::EV_PAR, n as u64, workers as u64);

    if workers <= 1 {
        // In-order, on the calling task. Still a scheduling point per item inside a run, so that
        // concurrent tasks (other strategies, a canceller) interleave with it. A caller that is
        // not a pool thread stands in for the pool thread it was granted.
        let _bound = granted.first().map(|s| (slots::bind(caller, *s), slots::Release(pool, *s)));
        let mut out = Vec::with_capacity(n);
        for i in 0..n {
            if active {
                shuttle::thread::yield_now();
            }
            let mut o = Vec::new();
            under_item(parent, call, i, || p.produce(i, &mut |t| o.push(t)));
            let hit = !o.is_empty();
            out.push((i, o));
            if hit && short != Short::No {
                simctx::with(|c| c.n_skipped_after_found += (n - i - 1) as u64);
                break;
            }
        }
        return out;
    }

    simctx::with(|c| {
        c.n_par_multiworker += 1;
        c.max_workers = c.max_workers.max(workers);
        c.depth += 1;
    });

    let q = Queue {
        ranges: match take {
            TakePolicy::Chunks => (0..workers).map(|w| (w * n / workers, (w + 1) * n / workers)).collect(),
            _ => vec![(0, n)],
        },
        pool: if take == TakePolicy::Random { (0..n).collect() } else { Vec::new() },
    };
    let queue = shuttle::sync::Mutex::new(q);
    let found = shuttle::sync::atomic::AtomicBool::new(false);
    let best = shuttle::sync::atomic::AtomicUsize::new(usize::MAX);
    let results: StdMutex<Vec<(usize, Vec<P::Item>)>> = StdMutex::new(Vec::with_capacity(n));
    use shuttle::sync::atomic::Ordering::SeqCst;

    // One unit of a worker's loop: take an item and run it. Returns false when there is nothing
    // (more) to do for worker `w`.
    let step = |w: usize| -> bool {
        if short == Short::Any && found.load(SeqCst) {
            return false;
        }
        let next = {
            let mut q = queue.lock().unwrap();
            take_item(&mut q, take, w)
        };
        let Some(i) = next else { return false };
        if short == Short::First && best.load(SeqCst) < i {
            simctx::with(|c| c.n_skipped_after_found += 1);
            return true;
        }
        simctx::log(simctx::EV_TAKE, w as u64, i as u64);
        let mut o = Vec::new();
        under_item(parent, call, i, || p.produce(i, &mut |t| o.push(t)));
        if !o.is_empty() {
            match short {
                Short::Any => found.store(true, SeqCst),
                Short::First => {
                    best.fetch_min(i, SeqCst);
                }
                Short::No => {}
            }
        }
        results.lock().unwrap().push((i, o));
        true
    };

    // Is the caller itself a pool worker (a task running items of an enclosing parallel
    // iterator)? Then it is a pool THREAD that blocks here until the inner work is done, and
    // two things rayon does are modelled: (1) one of the inner workers is that same thread (it
    // sees the thread's thread-locals); (2) while it waits, the thread may run other pending
    // work of the pool on top of its stack, in particular further items of the enclosing
    // iterator (work stealing while blocked; the source of "lock held across a parallel call"
    // deadlocks and of re-entrancy into thread-local state).
    let outer = steal::top(caller);

    // The outer items are run BEFORE the inner workers are spawned: the legal schedule in which
    // the inner jobs have been taken by threads that have not got round to them yet. (Running
    // them while the inner workers are live would need two overlapping shuttle scopes on one
    // task, which shuttle's scope does not support: it blocks its owner once, and any scope's
    // last thread wakes it.)
    if let Some(outer_step) = outer {
        // how many outer items this thread picks up while it is blocked: the stubs' own stream.
        // Not inside an item that was itself picked up this way: simulated stacks are small.
        let entered = steal::enter(caller);
        let _leave = steal::Leave(caller, entered);
        let k = if entered { simctx::with(|c| if c.steal { c.aux.below(3) } else { 0 }) } else { 0 };
        for _ in 0..k {
            simctx::with(|c| c.n_steals_attempted += 1);
            // SAFETY: the pointer was registered by this very task further up its own stack,
            // in a frame that cannot return before this function does
            let more = unsafe { (*outer_step.0)() };
            if !more {
                break;
            }
            simctx::with(|c| c.n_steals_ran += 1);
        }
    }
    shuttle::thread::scope(|s| {
        for w in 0..workers {
            let step = &step;
            // worker 0 runs on the caller's own pool thread if the caller is one
            let (slot, lent) = if w < own { (caller_slot.unwrap(), true) } else { (granted[w - own], false) };
            s.spawn(move || {
                let _bound = slots::bind(me(), slot);
                let _release = if lent { None } else { Some(slots::Release(pool, slot)) };
                simctx::tls::adopt(slots::identity(slot));
                let f = move || step(w);
                let _reg = steal::Registered::new(me(), &f);
                while f() {}
            });
        }
    });

    simctx::with(|c| c.depth -= 1);
    let res = results.into_inner().unwrap();
    if short == Short::Any {
        let skipped = n - res.len();
        simctx::with(|c| c.n_skipped_after_found += skipped as u64);
    }
    res
}

fn take_item(q: &mut Queue, take: TakePolicy, w: usize) -> Option<usize> {
    match take {
        TakePolicy::Front => {
            let r = &mut q.ranges[0];
            if r.0 < r.1 {
                r.0 += 1;
                Some(r.0 - 1)
            } else {
                None
            }
        }
        TakePolicy::Back => {
            let r = &mut q.ranges[0];
            if r.0 < r.1 {
                r.1 -= 1;
                Some(r.1)
            } else {
                None
            }
        }
        TakePolicy::Random => {
            if q.pool.is_empty() {
                None
            } else {
                let k = simctx::with(|c| c.aux.below(q.pool.len()));
                Some(q.pool.swap_remove(k))
            }
        }
        TakePolicy::Chunks => {
            // own chunk from the front; when empty, steal from the back of the fullest chunk
            let own = &mut q.ranges[w];
            if own.0 < own.1 {
                own.0 += 1;
                return Some(own.0 - 1);
            }
            let victim = (0..q.ranges.len()).max_by_key(|&v| q.ranges[v].1.saturating_sub(q.ranges[v].0))?;
            let r = &mut q.ranges[victim];
            if r.0 < r.1 {
                r.1 -= 1;
                Some(r.1)
            } else {
                None
            }
        }
    }
}

// ---------------------------------------------------------------------------------------------
// par_bridge: a sequential iterator consumed by the pool; rayon does NOT preserve its order
// ---------------------------------------------------------------------------------------------

#[derive(Debug)]
pub struct IterBridge<T: Send> {
    items: Vec<StdMutex<Option<T>>>,
}
impl<T: Send> ParallelIterator for IterBridge<T> {
    type Item = T;
    fn src_len(&self) -> usize {
        self.items.len()
    }
    fn produce(&self, i: usize, sink: &mut dyn FnMut(T)) {
        if let Some(t) = self.items[i].lock().unwrap().take() {
            sink(t)
        }
    }
    fn ordered(&self) -> bool {
        false
    }
}

pub trait ParallelBridge: Sized {
    type Item: Send;
    fn par_bridge(self) -> IterBridge<Self::Item>;
}
impl<T: Iterator + Send> ParallelBridge for T
where
    T::Item: Send,
{
    type Item = T::Item;
    fn par_bridge(self) -> IterBridge<T::Item> {
        IterBridge { items: self.map(|t| StdMutex::new(Some(t))).collect() }
    }
}
