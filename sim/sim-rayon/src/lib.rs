//! Contract model of `rayon` on shuttle tasks.
//!
//! What is modelled (the contract, not the implementation): a parallel iterator runs the whole
//! adaptor pipeline of one source item on one worker; up to `pool` workers run concurrently and
//! take items in an order rayon does not promise; `collect` preserves source order;
//! short-circuiting consumers (`find_any`, `find_map_any`, `any`, `all`) stop handing out new
//! items once a hit was seen, let items already in flight finish, and return *some* hit;
//! `find_first`-style consumers return the leftmost hit. Which worker runs which item, when each
//! worker is pre-empted (every queue access and every look at the found-flag is a scheduling
//! point), how many workers there are, and which of several hits wins are decided by the
//! simulator (shuttle scheduler + simctx streams), so each run is replayable.
//!
//! Outside a simulated run (oracle code, set-up code) everything degrades to an in-order
//! sequential loop.

use std::sync::Mutex as StdMutex;

pub mod iter;
pub mod prelude {
    pub use crate::iter::{
        FromParallelIterator, IndexedParallelIterator, IntoParallelIterator, IntoParallelRefIterator,
        IntoParallelRefMutIterator, ParallelBridge, ParallelExtend, ParallelIterator,
    };
    pub use crate::slice::{ParallelSlice, ParallelSliceMut};
}
pub mod slice;

/// rayon's global pool comes into being at its first use (a parallel iterator driven outside an
/// installed pool, `current_num_threads`, `build_global`) and lives as long as the process:
/// `build_global` fails from then on. Process-lifetime state, like the real thing.
static GLOBAL_POOL_EXISTS: std::sync::atomic::AtomicBool = std::sync::atomic::AtomicBool::new(false);
pub(crate) fn touch_global_pool() -> bool {
    GLOBAL_POOL_EXISTS.swap(true, std::sync::atomic::Ordering::Relaxed)
}

/// Number of workers of the modelled pool for the current run.
pub fn current_num_threads() -> usize {
    touch_global_pool();
    simctx::with(|c| if c.active { c.pool.max(1) } else { 1 })
}

/// Index of the pool thread the caller runs on; `None` for a thread that is not in the pool.
pub fn current_thread_index() -> Option<usize> {
    if !simctx::active() {
        return None;
    }
    let task = shuttle::current::get_current_task().map(usize::from).unwrap_or(0);
    iter::slots::of(task)
}

/// `rayon::join`: both closures run, possibly concurrently.
pub fn join<A, B, RA, RB>(a: A, b: B) -> (RA, RB)
where
    A: FnOnce() -> RA + Send,
    B: FnOnce() -> RB + Send,
    RA: Send,
    RB: Send,
{
    let (active, pool) = simctx::with(|c| (c.active, c.pool));
    if !active || pool <= 1 {
        let ra = a();
        let rb = b();
        return (ra, rb);
    }
    let rb_slot: StdMutex<Option<RB>> = StdMutex::new(None);
    let ra = shuttle::thread::scope(|s| {
        s.spawn(|| {
            let r = b();
            *rb_slot.lock().unwrap() = Some(r);
        });
        a()
    });
    let rb = rb_slot.into_inner().unwrap().expect("join: second closure did not finish");
    (ra, rb)
}

/// `rayon::scope` (structured spawning). Spawned closures run as simulated tasks.
pub struct Scope<'scope> {
    pending: StdMutex<Vec<Box<dyn FnOnce(&Scope<'scope>) + Send + 'scope>>>,
}

impl<'scope> Scope<'scope> {
    pub fn spawn<F>(&self, f: F)
    where
        F: FnOnce(&Scope<'scope>) + Send + 'scope,
    {
        self.pending.lock().unwrap().push(Box::new(f));
    }
}

pub fn scope<'scope, F, R>(f: F) -> R
where
    F: FnOnce(&Scope<'scope>) -> R,
{
    let sc = Scope { pending: StdMutex::new(Vec::new()) };
    let r = f(&sc);
    // Run spawned jobs (and the jobs they spawn) until none is left. Jobs of one generation run
    // as concurrent simulated tasks.
    loop {
        let jobs: Vec<_> = std::mem::take(&mut *sc.pending.lock().unwrap());
        if jobs.is_empty() {
            break;
        }
        let (active, pool) = simctx::with(|c| (c.active, c.pool));
        if !active || pool <= 1 {
            for j in jobs {
                j(&sc);
            }
        } else {
            let sc_ref = &sc;
            shuttle::thread::scope(|s| {
                for j in jobs {
                    s.spawn(move || j(sc_ref));
                }
            });
        }
    }
    r
}

/// `rayon::spawn`: fire-and-forget work on the pool. Inside a simulated run it becomes a detached
/// simulated task (it may run at any later scheduling point, or not before the caller returns).
pub fn spawn<F>(f: F)
where
    F: FnOnce() + Send + 'static,
{
    if simctx::active() {
        let _ = shuttle::thread::spawn(f);
    } else {
        f();
    }
}
pub use spawn as spawn_fifo;

/// `rayon::in_place_scope`: like `scope`.
pub fn in_place_scope<'scope, F, R>(f: F) -> R
where
    F: FnOnce(&Scope<'scope>) -> R,
{
    scope(f)
}
pub use in_place_scope as in_place_scope_fifo;
pub use scope as scope_fifo;

#[derive(Debug, Default)]
pub struct ThreadPoolBuilder {
    n: usize,
}
#[derive(Debug)]
pub struct ThreadPoolBuildError(&'static str);
impl std::fmt::Display for ThreadPoolBuildError {
    fn fmt(&self, f: &mut std::fmt::Formatter<'_>) -> std::fmt::Result {
        write!(f, "{}", self.0)
    }
}
impl std::error::Error for ThreadPoolBuildError {}
#[derive(Debug)]
pub struct ThreadPool {
    _n: usize,
}
impl ThreadPoolBuilder {
    pub fn new() -> Self {
        ThreadPoolBuilder { n: 0 }
    }
    pub fn num_threads(mut self, n: usize) -> Self {
        self.n = n;
        self
    }
    pub fn build(self) -> Result<ThreadPool, ThreadPoolBuildError> {
        Ok(ThreadPool { _n: self.n })
    }
    /// Accepted and ignored: the modelled workers are simulated tasks.
    pub fn stack_size(self, _bytes: usize) -> Self {
        self
    }
    pub fn thread_name<F>(self, _f: F) -> Self
    where
        F: FnMut(usize) -> String + 'static,
    {
        self
    }
    pub fn build_global(self) -> Result<(), ThreadPoolBuildError> {
        if touch_global_pool() {
            Err(ThreadPoolBuildError("The global thread pool has already been initialized."))
        } else {
            Ok(())
        }
    }
}
impl ThreadPool {
    /// The modelled pool size is the simulator's decision, not the program's; `install` only
    /// runs the closure.
    pub fn install<OP, R>(&self, op: OP) -> R
    where
        OP: FnOnce() -> R + Send,
        R: Send,
    {
        op()
    }
    pub fn current_num_threads(&self) -> usize {
        current_num_threads()
    }
    pub fn join<A, B, RA, RB>(&self, a: A, b: B) -> (RA, RB)
    where
        A: FnOnce() -> RA + Send,
        B: FnOnce() -> RB + Send,
        RA: Send,
        RB: Send,
    {
        join(a, b)
    }
    pub fn scope<'scope, F, R>(&self, f: F) -> R
    where
        F: FnOnce(&Scope<'scope>) -> R,
    {
        scope(f)
    }
    pub fn spawn<F>(&self, f: F)
    where
        F: FnOnce() + Send + 'static,
    {
        spawn(f)
    }
}
