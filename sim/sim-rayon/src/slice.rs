//! A small part of `rayon::slice`: sorting (sequential here; sorting has no observable
//! schedule dependence in rayon's contract either) and chunked iteration.

use crate::iter::{IndexedParallelIterator, ParallelIterator};

#[derive(Debug)]
pub struct Chunks<'a, T: Sync> {
    s: &'a [T],
    size: usize,
}
impl<'a, T: Sync + 'a> ParallelIterator for Chunks<'a, T> {
    type Item = &'a [T];
    fn src_len(&self) -> usize {
        (self.s.len() + self.size - 1) / self.size
    }
    fn produce(&self, i: usize, sink: &mut dyn FnMut(&'a [T])) {
        let lo = i * self.size;
        let hi = (lo + self.size).min(self.s.len());
        sink(&self.s[lo..hi])
    }
}
impl<'a, T: Sync + 'a> IndexedParallelIterator for Chunks<'a, T> {}

pub trait ParallelSlice<T: Sync> {
    fn as_parallel_slice(&self) -> &[T];
    fn par_chunks(&self, chunk_size: usize) -> Chunks<'_, T> {
        assert!(chunk_size != 0, "chunk_size must not be zero");
        Chunks { s: self.as_parallel_slice(), size: chunk_size }
    }
}
impl<T: Sync> ParallelSlice<T> for [T] {
    fn as_parallel_slice(&self) -> &[T] {
        self
    }
}

pub trait ParallelSliceMut<T: Send> {
    fn as_parallel_slice_mut(&mut self) -> &mut [T];
    fn par_sort(&mut self)
    where
        T: Ord,
    {
        self.as_parallel_slice_mut().sort()
    }
    fn par_sort_by<F>(&mut self, f: F)
    where
        F: Fn(&T, &T) -> std::cmp::Ordering + Sync,
    {
        self.as_parallel_slice_mut().sort_by(|a, b| f(a, b))
    }
    fn par_sort_by_key<K: Ord, F>(&mut self, f: F)
    where
        F: Fn(&T) -> K + Sync,
    {
        self.as_parallel_slice_mut().sort_by_key(|a| f(a))
    }
    fn par_sort_unstable(&mut self)
    where
        T: Ord,
    {
        self.as_parallel_slice_mut().sort_unstable()
    }
    fn par_sort_unstable_by<F>(&mut self, f: F)
    where
        F: Fn(&T, &T) -> std::cmp::Ordering + Sync,
    {
        self.as_parallel_slice_mut().sort_unstable_by(|a, b| f(a, b))
    }
    fn par_sort_unstable_by_key<K: Ord, F>(&mut self, f: F)
    where
        F: Fn(&T) -> K + Sync,
    {
        self.as_parallel_slice_mut().sort_unstable_by_key(|a| f(a))
    }
}
impl<T: Send> ParallelSliceMut<T> for [T] {
    fn as_parallel_slice_mut(&mut self) -> &mut [T] {
        self
    }
}
