//! A small part of `rayon::slice`: sorting (sequential here; sorting has no observable
//! schedule dependence in rayon's contract either) and chunked iteration.

use crate::iter::{IndexedParallelIterator, ParallelIterator};

#[derive(Debug)]
pub struct Chunks<'a, T: Sync> {
    s: &'a [T],
    size: usize,
}
impl<'a, T: Sync + 'a> ParallelIterator for Chunks<'a, T> {
    type Item = &'a [T];
    fn src_len(&self) -> usize {
        (self.s.len() + self.size - 1) / self.size
    }
    fn produce(&self, i: usize, sink: &mut dyn FnMut(&'a [T])) {
        let lo = i * self.size;
        let hi = (lo + self.size).min(self.s.len());
        sink(&self.s[lo..hi])
    }
}
impl<'a, T: Sync + 'a> IndexedParallelIterator for Chunks<'a, T> {}

#[derive(Debug)]
pub struct Windows<'a, T: Sync> {
    s: &'a [T],
    size: usize,
}
impl<'a, T: Sync + 'a> ParallelIterator for Windows<'a, T> {
    type Item = &'a [T];
    fn src_len(&self) -> usize {
        (self.s.len() + 1).saturating_sub(self.size)
    }
    fn produce(&self, i: usize, sink: &mut dyn FnMut(&'a [T])) {
        sink(&self.s[i..i + self.size])
    }
}
impl<'a, T: Sync + 'a> IndexedParallelIterator for Windows<'a, T> {}

pub trait ParallelSlice<T: Sync> {
    fn as_parallel_slice(&self) -> &[T];
    fn par_chunks(&self, chunk_size: usize) -> Chunks<'_, T> {
        assert!(chunk_size != 0, "chunk_size must not be zero");
        Chunks { s: self.as_parallel_slice(), size: chunk_size }
    }
    /// Like `par_chunks`, but the remainder that does not fill a whole chunk is NOT visited.
    fn par_chunks_exact(&self, chunk_size: usize) -> Chunks<'_, T> {
        assert!(chunk_size != 0, "chunk_size must not be zero");
        let s = self.as_parallel_slice();
        let whole = s.len() / chunk_size * chunk_size;
        Chunks { s: &s[..whole], size: chunk_size }
    }
    fn par_windows(&self, window_size: usize) -> Windows<'_, T> {
        assert!(window_size != 0, "window_size must not be zero");
        Windows { s: self.as_parallel_slice(), size: window_size }
    }
}
impl<T: Sync> ParallelSlice<T> for [T] {
    fn as_parallel_slice(&self) -> &[T] {
        self
    }
}

#[derive(Debug)]
pub struct ChunksMut<'a, T: Send> {
    ptr: *mut T,
    len: usize,
    size: usize,
    _p: std::marker::PhantomData<&'a mut [T]>,
}
// SAFETY: the driver produces every chunk index exactly once; chunks do not overlap.
unsafe impl<T: Send> Send for ChunksMut<'_, T> {}
unsafe impl<T: Send> Sync for ChunksMut<'_, T> {}
impl<'a, T: Send + 'a> ParallelIterator for ChunksMut<'a, T> {
    type Item = &'a mut [T];
    fn src_len(&self) -> usize {
        (self.len + self.size - 1) / self.size
    }
    fn produce(&self, i: usize, sink: &mut dyn FnMut(&'a mut [T])) {
        let lo = i * self.size;
        let hi = (lo + self.size).min(self.len);
        assert!(lo < hi);
        sink(unsafe { std::slice::from_raw_parts_mut(self.ptr.add(lo), hi - lo) })
    }
}
impl<'a, T: Send + 'a> IndexedParallelIterator for ChunksMut<'a, T> {}

pub trait ParallelSliceMut<T: Send> {
    fn as_parallel_slice_mut(&mut self) -> &mut [T];
    fn par_chunks_mut(&mut self, chunk_size: usize) -> ChunksMut<'_, T> {
        assert!(chunk_size != 0, "chunk_size must not be zero");
        let s = self.as_parallel_slice_mut();
        ChunksMut { ptr: s.as_mut_ptr(), len: s.len(), size: chunk_size, _p: std::marker::PhantomData }
    }
    fn par_chunks_exact_mut(&mut self, chunk_size: usize) -> ChunksMut<'_, T> {
        assert!(chunk_size != 0, "chunk_size must not be zero");
        let s = self.as_parallel_slice_mut();
        let whole = s.len() / chunk_size * chunk_size;
        ChunksMut { ptr: s.as_mut_ptr(), len: whole, size: chunk_size, _p: std::marker::PhantomData }
    }
    fn par_sort(&mut self)
    where
        T: Ord,
    {
        self.as_parallel_slice_mut().sort()
    }
    fn par_sort_by<F>(&mut self, f: F)
    where
        F: Fn(&T, &T) -> std::cmp::Ordering + Sync,
    {
        self.as_parallel_slice_mut().sort_by(|a, b| f(a, b))
    }
    fn par_sort_by_key<K: Ord, F>(&mut self, f: F)
    where
        F: Fn(&T) -> K + Sync,
    {
        self.as_parallel_slice_mut().sort_by_key(|a| f(a))
    }
    fn par_sort_unstable(&mut self)
    where
        T: Ord,
    {
        self.as_parallel_slice_mut().sort_unstable()
    }
    fn par_sort_unstable_by<F>(&mut self, f: F)
    where
        F: Fn(&T, &T) -> std::cmp::Ordering + Sync,
    {
        self.as_parallel_slice_mut().sort_unstable_by(|a, b| f(a, b))
    }
    fn par_sort_unstable_by_key<K: Ord, F>(&mut self, f: F)
    where
        F: Fn(&T) -> K + Sync,
    {
        self.as_parallel_slice_mut().sort_unstable_by_key(|a| f(a))
    }
}
impl<T: Send> ParallelSliceMut<T> for [T] {
    fn as_parallel_slice_mut(&mut self) -> &mut [T] {
        self
    }
}
