//! Contract model of `rand` for the simulator: the thread-local generator is a handle onto the
//! run's outcome plan (simctx). Contract kept from the real crate: a value from `low..high` lies
//! in `[low, high)`, from `low..=high` in `[low, high]`, and sampling an empty range panics with
//! rand's message. Which value inside the range comes out is the simulator's choice, and includes
//! the legal extremes real generators produce with probability ~2^-53.

use simctx::Outcome;
use std::ops::{Range, RangeInclusive};

/// Handle onto the simulator's outcome stream.
#[derive(Clone, Debug, Default)]
pub struct ThreadRng {
    _private: (),
}

pub mod rngs {
    pub use super::ThreadRng;
}

#[allow(deprecated)]
pub fn thread_rng() -> ThreadRng {
    ThreadRng { _private: () }
}

/// rand 0.9 name of `thread_rng`.
pub fn rng() -> ThreadRng {
    ThreadRng { _private: () }
}

fn draw() -> Outcome {
    // A draw is a seam event and, inside a simulated run, a scheduling point.
    let active = simctx::active();
    let task = if active { shuttle::current::get_current_task().map(usize::from).unwrap_or(0) } else { 0 };
    let (o, n) = simctx::with(|c| {
        let o = c.next_outcome(task);
        (o, c.n_rng)
    });
    let bits = match o {
        Outcome::U(u) => u.to_bits(),
        Outcome::Low => 1,
        Outcome::HighMinus => 2,
        Outcome::Abs(v) => v.to_bits() ^ 3,
    };
    simctx::log(simctx::EV_RNG, n, bits);
    if active {
        shuttle::thread::yield_now();
    }
    o
}

fn next_down(x: f64) -> f64 {
    if x.is_nan() || x == f64::NEG_INFINITY {
        return x;
    }
    if x == 0.0 {
        return -f64::from_bits(1);
    }
    let b = x.to_bits();
    if x > 0.0 {
        f64::from_bits(b - 1)
    } else {
        f64::from_bits(b + 1)
    }
}

fn sample_f64(low: f64, high: f64, inclusive: bool) -> f64 {
    if inclusive {
        assert!(low <= high, "cannot sample empty range");
    } else {
        assert!(low < high, "cannot sample empty range");
    }
    assert!(low.is_finite() && high.is_finite(), "Uniform::new called with non-finite boundaries");
    let top = if inclusive { high } else { next_down(high) };
    let v = match draw() {
        Outcome::Low => low,
        Outcome::HighMinus => top,
        Outcome::Abs(x) if x >= low && x <= top => x,
        Outcome::Abs(_) => low + 0.5 * (high - low),
        Outcome::U(u) => low + u * (high - low),
    };
    // Keep rand's contract under rounding.
    if v < low {
        low
    } else if v > top {
        top
    } else {
        v
    }
}

fn unit() -> f64 {
    sample_f64(0.0, 1.0, false)
}

/// Ranges a value can be sampled from.
pub trait SampleRange<T> {
    fn sample_single(self) -> T;
    fn is_empty(&self) -> bool;
}

impl SampleRange<f64> for Range<f64> {
    fn sample_single(self) -> f64 {
        sample_f64(self.start, self.end, false)
    }
    fn is_empty(&self) -> bool {
        !(self.start < self.end)
    }
}
impl SampleRange<f64> for RangeInclusive<f64> {
    fn sample_single(self) -> f64 {
        sample_f64(*self.start(), *self.end(), true)
    }
    fn is_empty(&self) -> bool {
        !(self.start() <= self.end())
    }
}
impl SampleRange<f32> for Range<f32> {
    fn sample_single(self) -> f32 {
        assert!(self.start < self.end, "cannot sample empty range");
        let v = sample_f64(self.start as f64, self.end as f64, false) as f32;
        if v >= self.end {
            f32::from_bits(self.end.to_bits().wrapping_sub(1)).max(self.start)
        } else {
            v.max(self.start)
        }
    }
    fn is_empty(&self) -> bool {
        !(self.start < self.end)
    }
}
impl SampleRange<f32> for RangeInclusive<f32> {
    fn sample_single(self) -> f32 {
        let v = sample_f64(*self.start() as f64, *self.end() as f64, true) as f32;
        v.clamp(*self.start(), *self.end())
    }
    fn is_empty(&self) -> bool {
        !(self.start() <= self.end())
    }
}

macro_rules! int_ranges {
    ($($t:ty),*) => {$(
        impl SampleRange<$t> for Range<$t> {
            fn sample_single(self) -> $t {
                assert!(self.start < self.end, "cannot sample empty range");
                let span = (self.end as i128 - self.start as i128) as f64;
                let k = (unit() * span).floor() as i128;
                let k = k.clamp(0, (self.end as i128 - self.start as i128) - 1);
                (self.start as i128 + k) as $t
            }
            fn is_empty(&self) -> bool { !(self.start < self.end) }
        }
        impl SampleRange<$t> for RangeInclusive<$t> {
            fn sample_single(self) -> $t {
                assert!(self.start() <= self.end(), "cannot sample empty range");
                let span = (*self.end() as i128 - *self.start() as i128 + 1) as f64;
                let k = (unit() * span).floor() as i128;
                let k = k.clamp(0, *self.end() as i128 - *self.start() as i128);
                (*self.start() as i128 + k) as $t
            }
            fn is_empty(&self) -> bool { !(self.start() <= self.end()) }
        }
        impl Standard for $t {
            fn standard() -> $t {
                let hi = (unit() * 4294967296.0) as u64;
                let lo = (unit() * 4294967296.0) as u64;
                ((hi << 32) | lo) as $t
            }
        }
    )*};
}
int_ranges!(u8, u16, u32, u64, usize, i8, i16, i32, i64, isize);

/// Types with a "standard" distribution (`rng.gen()` / `rng.random()`).
pub trait Standard {
    fn standard() -> Self;
}
impl Standard for f64 {
    fn standard() -> f64 {
        unit()
    }
}
impl Standard for f32 {
    fn standard() -> f32 {
        let v = unit() as f32;
        if v >= 1.0 {
            0.99999994
        } else {
            v
        }
    }
}
impl Standard for bool {
    fn standard() -> bool {
        unit() < 0.5
    }
}

pub trait RngCore {
    fn next_u32(&mut self) -> u32;
    fn next_u64(&mut self) -> u64;
}
impl RngCore for ThreadRng {
    fn next_u32(&mut self) -> u32 {
        <u32 as Standard>::standard()
    }
    fn next_u64(&mut self) -> u64 {
        <u64 as Standard>::standard()
    }
}

/// User-level generator interface (0.8 and 0.9 spellings).
pub trait Rng: RngCore {
    fn gen_range<T, R: SampleRange<T>>(&mut self, range: R) -> T {
        range.sample_single()
    }
    fn random_range<T, R: SampleRange<T>>(&mut self, range: R) -> T {
        range.sample_single()
    }
    fn gen<T: Standard>(&mut self) -> T {
        T::standard()
    }
    fn random<T: Standard>(&mut self) -> T {
        T::standard()
    }
    fn gen_bool(&mut self, p: f64) -> bool {
        assert!((0.0..=1.0).contains(&p), "p={p} is outside range [0.0, 1.0]");
        unit() < p
    }
    fn random_bool(&mut self, p: f64) -> bool {
        self.gen_bool(p)
    }
}
impl<R: RngCore + ?Sized> Rng for R {}

pub fn random<T: Standard>() -> T {
    T::standard()
}
pub fn random_range<T, R: SampleRange<T>>(range: R) -> T {
    range.sample_single()
}
pub fn random_bool(p: f64) -> bool {
    thread_rng().gen_bool(p)
}

pub mod seq {
    use super::Rng;
    pub trait SliceRandom {
        type Item;
        fn choose<R: Rng + ?Sized>(&self, rng: &mut R) -> Option<&Self::Item>;
        fn shuffle<R: Rng + ?Sized>(&mut self, rng: &mut R);
    }
    impl<T> SliceRandom for [T] {
        type Item = T;
        fn choose<R: Rng + ?Sized>(&self, rng: &mut R) -> Option<&T> {
            if self.is_empty() {
                None
            } else {
                Some(&self[rng.gen_range(0..self.len())])
            }
        }
        fn shuffle<R: Rng + ?Sized>(&mut self, rng: &mut R) {
            for i in (1..self.len()).rev() {
                let j = rng.gen_range(0..=i);
                self.swap(i, j);
            }
        }
    }
    pub use SliceRandom as IndexedRandom;
}

pub mod prelude {
    pub use super::seq::SliceRandom;
    pub use super::{random, rng, thread_rng, Rng, RngCore, ThreadRng};
}
