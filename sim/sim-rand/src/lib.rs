//! Contract model of `rand` for the simulator: the thread-local generator is a handle onto the
//! run's outcome plan (simctx). Contract kept from the real crate: a value from `low..high` lies
//! in `[low, high)`, from `low..=high` in `[low, high]`, and sampling an empty range panics with
//! rand's message. Which value inside the range comes out is the simulator's choice, and includes
//! the legal extremes real generators produce with probability ~2^-53.

use simctx::Outcome;
use std::ops::{Range, RangeInclusive};

/// Handle onto the simulator's outcome stream.
#[derive(Clone, Debug, Default)]
pub struct ThreadRng {
    _private: (),
}

pub mod rngs {
    pub use super::SeededRng as SmallRng;
    pub use super::SeededRng as StdRng;
    pub use super::ThreadRng;
    /// The operating system's generator: entropy, i.e. the simulator's decision.
    #[derive(Clone, Copy, Debug, Default)]
    pub struct OsRng;
    impl super::RngCore for OsRng {}
    impl super::CryptoRng for OsRng {}
    pub mod mock {
        /// `StepRng`: deterministic by contract
        #[derive(Clone, Debug)]
        pub struct StepRng {
            v: u64,
            a: u64,
        }
        impl StepRng {
            pub fn new(initial: u64, increment: u64) -> Self {
                StepRng { v: initial, a: increment }
            }
        }
        impl super::super::RngCore for StepRng {
            fn next_u64(&mut self) -> u64 {
                let r = self.v;
                self.v = self.v.wrapping_add(self.a);
                r
            }
            fn next_u32(&mut self) -> u32 {
                self.next_u64() as u32
            }
            fn __outcome(&mut self) -> simctx::Outcome {
                let r = self.v;
                self.v = self.v.wrapping_add(self.a);
                simctx::Outcome::U((r >> 11) as f64 / (1u64 << 53) as f64)
            }
            fn __is_entropy(&self) -> bool {
                false
            }
        }
    }
}

#[allow(deprecated)]
pub fn thread_rng() -> ThreadRng {
    ThreadRng { _private: () }
}

/// rand 0.9 name of `thread_rng`.
pub fn rng() -> ThreadRng {
    ThreadRng { _private: () }
}

fn draw() -> Outcome {
    // A draw is a seam event and, inside a simulated run, a scheduling point.
    let active = simctx::active();
    let task = if active { shuttle::current::get_current_task().map(usize::from).unwrap_or(0) } else { 0 };
    let (o, n) = simctx::with(|c| {
        let o = c.next_outcome(task);
        (o, c.n_rng)
    });
    let bits = match o {
        Outcome::U(u) => u.to_bits(),
        Outcome::Low => 1,
        Outcome::HighMinus => 2,
        Outcome::Abs(v) => v.to_bits() ^ 3,
    };
    simctx::log(simctx::EV_RNG, n, bits);
    if active {
        shuttle::thread::yield_now();
    }
    o
}

fn next_down(x: f64) -> f64 {
    if x.is_nan() || x == f64::NEG_INFINITY {
        return x;
    }
    if x == 0.0 {
        return -f64::from_bits(1);
    }
    let b = x.to_bits();
    if x > 0.0 {
        f64::from_bits(b - 1)
    } else {
        f64::from_bits(b + 1)
    }
}

fn sample_f64<R: RngCore + ?Sized>(rng: &mut R, low: f64, high: f64, inclusive: bool) -> f64 {
    if inclusive {
        assert!(low <= high, "cannot sample empty range");
    } else {
        assert!(low < high, "cannot sample empty range");
    }
    assert!(low.is_finite() && high.is_finite(), "Uniform::new called with non-finite boundaries");
    let top = if inclusive { high } else { next_down(high) };
    let v = match rng.__outcome() {
        Outcome::Low => low,
        Outcome::HighMinus => top,
        Outcome::Abs(x) if x >= low && x <= top => x,
        Outcome::Abs(_) => low + 0.5 * (high - low),
        Outcome::U(u) => low + u * (high - low),
    };
    // Keep rand's contract under rounding.
    if v < low {
        low
    } else if v > top {
        top
    } else {
        v
    }
}

fn unit<R: RngCore + ?Sized>(rng: &mut R) -> f64 {
    sample_f64(rng, 0.0, 1.0, false)
}

/// Ranges a value can be sampled from.
pub trait SampleRange<T> {
    fn sample_single<R: RngCore + ?Sized>(self, rng: &mut R) -> T;
    fn is_empty(&self) -> bool;
}

impl SampleRange<f64> for Range<f64> {
    fn sample_single<R: RngCore + ?Sized>(self, rng: &mut R) -> f64 {
        sample_f64(rng, self.start, self.end, false)
    }
    fn is_empty(&self) -> bool {
        !(self.start < self.end)
    }
}
impl SampleRange<f64> for RangeInclusive<f64> {
    fn sample_single<R: RngCore + ?Sized>(self, rng: &mut R) -> f64 {
        sample_f64(rng, *self.start(), *self.end(), true)
    }
    fn is_empty(&self) -> bool {
        !(self.start() <= self.end())
    }
}
impl SampleRange<f32> for Range<f32> {
    fn sample_single<R: RngCore + ?Sized>(self, rng: &mut R) -> f32 {
        assert!(self.start < self.end, "cannot sample empty range");
        let v = sample_f64(rng, self.start as f64, self.end as f64, false) as f32;
        if v >= self.end {
            f32::from_bits(self.end.to_bits().wrapping_sub(1)).max(self.start)
        } else {
            v.max(self.start)
        }
    }
    fn is_empty(&self) -> bool {
        !(self.start < self.end)
    }
}
impl SampleRange<f32> for RangeInclusive<f32> {
    fn sample_single<R: RngCore + ?Sized>(self, rng: &mut R) -> f32 {
        let v = sample_f64(rng, *self.start() as f64, *self.end() as f64, true) as f32;
        v.clamp(*self.start(), *self.end())
    }
    fn is_empty(&self) -> bool {
        !(self.start() <= self.end())
    }
}

macro_rules! int_ranges {
    ($($t:ty),*) => {$(
        impl SampleRange<$t> for Range<$t> {
            fn sample_single<R: RngCore + ?Sized>(self, rng: &mut R) -> $t {
                assert!(self.start < self.end, "cannot sample empty range");
                let span = (self.end as i128 - self.start as i128) as f64;
                let k = (unit(rng) * span).floor() as i128;
                let k = k.clamp(0, (self.end as i128 - self.start as i128) - 1);
                (self.start as i128 + k) as $t
            }
            fn is_empty(&self) -> bool { !(self.start < self.end) }
        }
        impl SampleRange<$t> for RangeInclusive<$t> {
            fn sample_single<R: RngCore + ?Sized>(self, rng: &mut R) -> $t {
                assert!(self.start() <= self.end(), "cannot sample empty range");
                let span = (*self.end() as i128 - *self.start() as i128 + 1) as f64;
                let k = (unit(rng) * span).floor() as i128;
                let k = k.clamp(0, *self.end() as i128 - *self.start() as i128);
                (*self.start() as i128 + k) as $t
            }
            fn is_empty(&self) -> bool { !(self.start() <= self.end()) }
        }
        impl Standard for $t {
            fn standard<R: RngCore + ?Sized>(rng: &mut R) -> $t {
                let hi = (unit(rng) * 4294967296.0) as u64;
                let lo = (unit(rng) * 4294967296.0) as u64;
                ((hi << 32) | lo) as $t
            }
        }
    )*};
}
int_ranges!(u8, u16, u32, u64, usize, i8, i16, i32, i64, isize);

/// Types with a "standard" distribution (`rng.gen()` / `rng.random()`).
pub trait Standard {
    fn standard<R: RngCore + ?Sized>(rng: &mut R) -> Self;
}
impl Standard for f64 {
    fn standard<R: RngCore + ?Sized>(rng: &mut R) -> f64 {
        unit(rng)
    }
}
impl Standard for f32 {
    fn standard<R: RngCore + ?Sized>(rng: &mut R) -> f32 {
        let v = unit(rng) as f32;
        if v >= 1.0 {
            0.99999994
        } else {
            v
        }
    }
}
impl Standard for bool {
    fn standard<R: RngCore + ?Sized>(rng: &mut R) -> bool {
        unit(rng) < 0.5
    }
}

pub trait RngCore {
    fn next_u32(&mut self) -> u32 {
        <u32 as Standard>::standard(self)
    }
    fn next_u64(&mut self) -> u64 {
        <u64 as Standard>::standard(self)
    }
    fn fill_bytes(&mut self, dest: &mut [u8]) {
        for b in dest.iter_mut() {
            *b = <u8 as Standard>::standard(self);
        }
    }
    fn try_fill_bytes(&mut self, dest: &mut [u8]) -> Result<(), Error> {
        self.fill_bytes(dest);
        Ok(())
    }
    /// Where the next value comes from. Generators that stand for entropy (the thread-local
    /// generator, the OS generator, anything seeded from them) hand the decision to the
    /// simulator; generators seeded with a fixed value are deterministic by contract and use
    /// their own stream.
    #[doc(hidden)]
    fn __outcome(&mut self) -> Outcome {
        draw()
    }
    #[doc(hidden)]
    fn __is_entropy(&self) -> bool {
        true
    }
}
impl RngCore for ThreadRng {}
impl<R: RngCore + ?Sized> RngCore for &mut R {
    fn __outcome(&mut self) -> Outcome {
        (**self).__outcome()
    }
    fn __is_entropy(&self) -> bool {
        (**self).__is_entropy()
    }
}
impl<R: RngCore + ?Sized> RngCore for Box<R> {
    fn __outcome(&mut self) -> Outcome {
        (**self).__outcome()
    }
    fn __is_entropy(&self) -> bool {
        (**self).__is_entropy()
    }
}

/// Error type of fallible generators (never produced here).
#[derive(Debug)]
pub struct Error;
impl std::fmt::Display for Error {
    fn fmt(&self, f: &mut std::fmt::Formatter<'_>) -> std::fmt::Result {
        f.write_str("random generator error")
    }
}
impl std::error::Error for Error {}

/// Marker kept for source compatibility.
pub trait CryptoRng {}
impl CryptoRng for ThreadRng {}

/// A generator created from a seed: from a fixed seed it is deterministic (its own stream, the
/// same for the same seed); from entropy or from another entropy-backed generator its values
/// are the simulator's decision like the thread-local generator's.
#[derive(Clone, Debug, PartialEq, Eq)]
pub struct SeededRng {
    state: Option<u64>,
}
impl SeededRng {
    fn entropy() -> Self {
        SeededRng { state: None }
    }
    fn fixed(seed: u64) -> Self {
        SeededRng { state: Some(seed ^ 0x5EED_5EED_5EED_5EED) }
    }
}
impl RngCore for SeededRng {
    fn __outcome(&mut self) -> Outcome {
        match &mut self.state {
            None => draw(),
            Some(s) => {
                let z = simctx::splitmix64(s);
                Outcome::U((z >> 11) as f64 / (1u64 << 53) as f64)
            }
        }
    }
    fn __is_entropy(&self) -> bool {
        self.state.is_none()
    }
}

pub trait SeedableRng: Sized {
    type Seed: Default + AsMut<[u8]>;
    fn from_seed(seed: Self::Seed) -> Self;
    fn seed_from_u64(state: u64) -> Self;
    /// rand 0.9 signature (0.8 took the generator by value and returned a Result)
    fn from_rng(rng: &mut impl RngCore) -> Self;
    fn try_from_rng<R: RngCore>(rng: &mut R) -> Result<Self, Error> {
        Ok(Self::from_rng(rng))
    }
    /// rand 0.8 spelling of `from_os_rng`
    fn from_entropy() -> Self;
    fn from_os_rng() -> Self {
        Self::from_entropy()
    }
    fn try_from_os_rng() -> Result<Self, Error> {
        Ok(Self::from_entropy())
    }
}
impl SeedableRng for SeededRng {
    type Seed = [u8; 32];
    fn from_seed(seed: [u8; 32]) -> Self {
        let mut h = 0u64;
        for c in seed.chunks(8) {
            let mut w = [0u8; 8];
            w[..c.len()].copy_from_slice(c);
            h = simctx::mix(&[h, u64::from_le_bytes(w)]);
        }
        SeededRng::fixed(h)
    }
    fn seed_from_u64(state: u64) -> Self {
        SeededRng::fixed(state)
    }
    fn from_rng(rng: &mut impl RngCore) -> Self {
        // seeded from an entropy-backed generator = entropy; from a deterministic one = deterministic
        if rng.__is_entropy() {
            SeededRng::entropy()
        } else {
            SeededRng::fixed(rng.next_u64())
        }
    }
    fn from_entropy() -> Self {
        SeededRng::entropy()
    }
}

/// User-level generator interface (0.8 and 0.9 spellings).
pub trait Rng: RngCore {
    fn gen_range<T, R: SampleRange<T>>(&mut self, range: R) -> T {
        range.sample_single(self)
    }
    fn random_range<T, R: SampleRange<T>>(&mut self, range: R) -> T {
        range.sample_single(self)
    }
    fn gen<T: Standard>(&mut self) -> T {
        T::standard(self)
    }
    fn random<T: Standard>(&mut self) -> T {
        T::standard(self)
    }
    fn gen_bool(&mut self, p: f64) -> bool {
        assert!((0.0..=1.0).contains(&p), "p={p} is outside range [0.0, 1.0]");
        unit(self) < p
    }
    fn random_bool(&mut self, p: f64) -> bool {
        self.gen_bool(p)
    }
    fn gen_ratio(&mut self, numerator: u32, denominator: u32) -> bool {
        assert!(denominator > 0 && numerator <= denominator);
        unit(self) * (denominator as f64) < numerator as f64
    }
    fn sample<T, D: distributions::Distribution<T>>(&mut self, distr: D) -> T {
        distr.sample(self)
    }
    fn fill<T: Standard>(&mut self, dest: &mut [T]) {
        for d in dest.iter_mut() {
            *d = T::standard(self);
        }
    }
}
impl<R: RngCore + ?Sized> Rng for R {}

pub fn random<T: Standard>() -> T {
    T::standard(&mut thread_rng())
}
pub fn random_range<T, R: SampleRange<T>>(range: R) -> T {
    range.sample_single(&mut thread_rng())
}
pub fn random_bool(p: f64) -> bool {
    thread_rng().gen_bool(p)
}

pub mod distributions {
    use super::{RngCore, SampleRange, Standard as StandardValue};
    pub trait Distribution<T> {
        fn sample<R: RngCore + ?Sized>(&self, rng: &mut R) -> T;
    }
    impl<T, D: Distribution<T>> Distribution<T> for &D {
        fn sample<R: RngCore + ?Sized>(&self, rng: &mut R) -> T {
            (**self).sample(rng)
        }
    }
    /// `rand::distributions::Standard` / `rand::distr::StandardUniform`
    #[derive(Clone, Copy, Debug, Default)]
    pub struct Standard;
    pub use Standard as StandardUniform;
    impl<T: StandardValue> Distribution<T> for Standard {
        fn sample<R: RngCore + ?Sized>(&self, rng: &mut R) -> T {
            T::standard(rng)
        }
    }
    #[derive(Clone, Copy, Debug, PartialEq)]
    pub struct Uniform<T> {
        low: T,
        high: T,
        inclusive: bool,
    }
    impl<T: Copy + PartialOrd> Uniform<T> {
        pub fn new(low: T, high: T) -> Uniform<T> {
            assert!(low < high, "Uniform::new called with `low >= high`");
            Uniform { low, high, inclusive: false }
        }
        pub fn new_inclusive(low: T, high: T) -> Uniform<T> {
            assert!(low <= high, "Uniform::new_inclusive called with `low > high`");
            Uniform { low, high, inclusive: true }
        }
    }
    impl<T: Copy> Distribution<T> for Uniform<T>
    where
        std::ops::Range<T>: SampleRange<T>,
        std::ops::RangeInclusive<T>: SampleRange<T>,
    {
        fn sample<R: RngCore + ?Sized>(&self, rng: &mut R) -> T {
            if self.inclusive {
                (self.low..=self.high).sample_single(rng)
            } else {
                (self.low..self.high).sample_single(rng)
            }
        }
    }
    #[derive(Clone, Copy, Debug, PartialEq)]
    pub struct Bernoulli(f64);
    impl Bernoulli {
        pub fn new(p: f64) -> Result<Bernoulli, super::Error> {
            if (0.0..=1.0).contains(&p) {
                Ok(Bernoulli(p))
            } else {
                Err(super::Error)
            }
        }
    }
    impl Distribution<bool> for Bernoulli {
        fn sample<R: RngCore + ?Sized>(&self, rng: &mut R) -> bool {
            super::unit(rng) < self.0
        }
    }
    pub mod uniform {
        pub use super::super::SampleRange;
        pub use super::Uniform;
    }
}
pub use distributions as distr;

pub mod seq {
    use super::Rng;
    pub trait SliceRandom {
        type Item;
        fn choose<R: Rng + ?Sized>(&self, rng: &mut R) -> Option<&Self::Item>;
        fn shuffle<R: Rng + ?Sized>(&mut self, rng: &mut R);
    }
    impl<T> SliceRandom for [T] {
        type Item = T;
        fn choose<R: Rng + ?Sized>(&self, rng: &mut R) -> Option<&T> {
            if self.is_empty() {
                None
            } else {
                Some(&self[rng.gen_range(0..self.len())])
            }
        }
        fn shuffle<R: Rng + ?Sized>(&mut self, rng: &mut R) {
            for i in (1..self.len()).rev() {
                let j = rng.gen_range(0..=i);
                self.swap(i, j);
            }
        }
    }
    pub use SliceRandom as IndexedRandom;
}

pub mod prelude {
    pub use super::seq::SliceRandom;
    pub use super::distributions::Distribution;
    pub use super::rngs::{SmallRng, StdRng};
    pub use super::{random, rng, thread_rng, CryptoRng, Rng, RngCore, SeedableRng, ThreadRng};
}
