//! Greedy delta-debugging over explicit case descriptions, and ddmin over schedule lists.

use crate::sim::{SchedSpec, SimCfg, Flavour, Take, RngSpec, Out};

/// Repeatedly try the simplifications offered by `candidates`; keep one whenever the case still
/// fails the same way. Stops when no candidate is accepted or the evaluation budget is spent.
pub fn greedy<C: Clone>(
    start: C,
    candidates: &dyn Fn(&C) -> Vec<C>,
    still_fails: &mut dyn FnMut(&C) -> bool,
    budget: usize,
) -> C {
    let mut cur = start;
    let mut spent = 0;
    'outer: loop {
        for cand in candidates(&cur) {
            if spent >= budget {
                break 'outer;
            }
            spent += 1;
            if still_fails(&cand) {
                cur = cand;
                continue 'outer;
            }
        }
        break;
    }
    cur
}

/// Simpler variants of one simulator configuration (scheduler / pool / stub knobs).
pub fn simpler_cfgs(cfg: &SimCfg) -> Vec<SimCfg> {
    let mut out = Vec::new();
    if cfg.pool > 1 {
        let mut c = cfg.clone();
        c.pool = 1;
        out.push(c);
        if cfg.pool > 2 {
            let mut c = cfg.clone();
            c.pool = 2;
            out.push(c);
        }
    }
    if cfg.take != Take::Front {
        let mut c = cfg.clone();
        c.take = Take::Front;
        out.push(c);
    }
    if let SchedSpec::Seeded { seed, flavour } = &cfg.sched {
        if *flavour != Flavour::Uniform {
            let mut c = cfg.clone();
            c.sched = SchedSpec::Seeded { seed: *seed, flavour: Flavour::Uniform };
            out.push(c);
        }
    }
    if cfg.steal {
        let mut c = cfg.clone();
        c.steal = false;
        out.push(c);
    }
    if cfg.inner_full {
        let mut c = cfg.clone();
        c.inner_full = false;
        out.push(c);
    }
    out
}

/// Shrink an explicit schedule towards "never pre-empt": ddmin-style removal of chunks of the
/// choice list (the replay scheduler falls back to "continue current, else lowest id" where the
/// list has no applicable entry).
pub fn shrink_schedule(list: &[u32], still_fails: &mut dyn FnMut(&[u32]) -> bool, budget: usize) -> Vec<u32> {
    let mut cur: Vec<u32> = list.to_vec();
    let mut spent = 0;
    // first: the empty schedule
    if spent < budget {
        spent += 1;
        if still_fails(&[]) {
            return Vec::new();
        }
    }
    // truncate from the end
    let mut n = cur.len() / 2;
    while n >= 1 && spent < budget {
        if cur.len() > n {
            let cand = cur[..cur.len() - n].to_vec();
            spent += 1;
            if still_fails(&cand) {
                cur = cand;
                continue;
            }
        }
        n /= 2;
    }
    // remove chunks from the middle
    let mut chunk = (cur.len() / 4).max(1);
    while chunk >= 1 && spent < budget {
        let mut i = 0;
        let mut progress = false;
        while i + chunk <= cur.len() && spent < budget {
            let mut cand = cur.clone();
            cand.drain(i..i + chunk);
            spent += 1;
            if still_fails(&cand) {
                cur = cand;
                progress = true;
            } else {
                i += chunk;
            }
        }
        if chunk == 1 && !progress {
            break;
        }
        chunk = if progress { chunk } else { chunk / 2 };
        if chunk == 0 {
            break;
        }
    }
    cur
}

/// Replace random outcomes by the mid-range value where that keeps the failure.
pub fn shrink_rng(list: &[Out], still_fails: &mut dyn FnMut(&[Out]) -> bool, budget: usize) -> Vec<Out> {
    let mut cur = list.to_vec();
    let mut spent = 0;
    // truncate (the tail falls back to U(0.5))
    let mut n = cur.len();
    while n >= 1 && spent < budget {
        n /= 2;
        if cur.len() > n {
            let cand = cur[..n].to_vec();
            spent += 1;
            if still_fails(&cand) {
                cur = cand;
            }
        }
        if n == 0 {
            break;
        }
    }
    for i in 0..cur.len() {
        if spent >= budget {
            break;
        }
        if cur[i] != Out::U(0.5) {
            let mut cand = cur.clone();
            cand[i] = Out::U(0.5);
            spent += 1;
            if still_fails(&cand) {
                cur = cand;
            }
        }
    }
    cur
}

pub fn with_replay(cfg: &SimCfg, schedule: Vec<u32>, rng: Option<Vec<Out>>) -> SimCfg {
    let mut c = cfg.clone();
    c.sched = SchedSpec::Replay(schedule);
    if let Some(r) = rng {
        c.rng = RngSpec::List(r);
    }
    c
}
