//! `Probe`: the robot model seam. It implements the library's `Kinematics` trait around the real
//! stack; every collision check (`forward_with_joint_poses`) and every random sample of the RRT
//! planner (`constraints()`) is a numbered seam event: it is logged, it is a scheduling point,
//! and the run's fault plan may act in it (raise the cancellation flag).

use rs_opw_kinematics::constraints::Constraints;
use rs_opw_kinematics::kinematic_traits::{Joints, Kinematics, Pose, Singularity, Solutions};
use serde::{Deserialize, Serialize};
use shuttle::sync::atomic::{AtomicBool, Ordering};
use std::cell::RefCell;
use std::sync::Arc;

#[derive(Clone, Copy, Debug, PartialEq, Eq, Serialize, Deserialize)]
pub enum Kind {
    /// one collision check of one configuration
    Collision,
    /// one random sample requested by the RRT planner
    Sample,
    /// one inverse-kinematics query on the underlying stack
    Ik,
}

/// When (if ever) the cancellation flag is raised.
#[derive(Clone, Copy, Debug, PartialEq, Serialize, Deserialize)]
pub enum Cancel {
    Never,
    /// before the planner is called
    Pre,
    /// synchronously inside the k-th (1-based) seam event of the given kind
    At(Kind, u64),
    /// by a concurrent simulated task after it has been scheduled `n` times
    Async(u32),
}

#[derive(Clone, Debug, Default)]
pub struct Trace {
    /// (sequence number, kind) of every seam event
    pub events: Vec<(u64, Kind)>,
    /// per event: logical path (which parallel item the caller runs under) and a key
    /// (hash of the `previous` joints for IK events, 0 otherwise)
    pub where_: Vec<(u64, u64)>,
    /// value of the sequence counter when the flag was raised
    pub raised_at: Option<u64>,
    pub collisions: u64,
    pub samples: u64,
    pub iks: u64,
}

struct State {
    paused: bool,
    stop: Option<Arc<AtomicBool>>,
    cancel: Cancel,
    seq: u64,
    trace: Trace,
    keep_events: bool,
}

thread_local! {
    static STATE: RefCell<Option<State>> = const { RefCell::new(None) };
}

/// Start recording for the execution running on this (engine) thread.
pub fn begin(stop: Option<Arc<AtomicBool>>, cancel: Cancel, keep_events: bool) {
    STATE.with(|s| {
        *s.borrow_mut() = Some(State { paused: false, stop, cancel, seq: 0, trace: Trace::default(), keep_events });
    });
}

/// While paused, seam events are scheduling points only: not counted, not logged as events, no
/// fault is injected (used for un-observed warm-up calls).
pub fn pause(on: bool) {
    STATE.with(|s| {
        if let Some(st) = s.borrow_mut().as_mut() {
            st.paused = on;
        }
    });
}

pub fn end() -> Trace {
    STATE.with(|s| s.borrow_mut().take().map(|s| s.trace).unwrap_or_default())
}

/// Raise the flag from outside a seam event (the asynchronous canceller, or `Pre`).
pub fn raise_now() {
    let stop = STATE.with(|s| s.borrow().as_ref().and_then(|st| st.stop.clone()));
    if let Some(f) = stop {
        simctx::log(simctx::EV_FAULT, 1, 0);
        // the store is a scheduling point BEFORE it takes effect: the planner may run for as long
        // as the scheduler likes in between. The instant that counts is the one at which the
        // store has happened, so it is recorded afterwards (no scheduling point in between).
        f.store(true, Ordering::SeqCst);
        STATE.with(|s| {
            if let Some(st) = s.borrow_mut().as_mut() {
                if st.trace.raised_at.is_none() {
                    st.trace.raised_at = Some(st.seq);
                }
            }
        });
    }
}

fn seam(kind: Kind, key: u64) {
    let task = if simctx::active() { shuttle::current::get_current_task().map(usize::from).unwrap_or(0) } else { 0 };
    let path = simctx::with(|c| c.current_path(task));
    let raise = STATE.with(|s| {
        let mut s = s.borrow_mut();
        let Some(st) = s.as_mut() else { return None };
        if st.paused {
            return None;
        }
        st.seq += 1;
        let n = match kind {
            Kind::Collision => {
                st.trace.collisions += 1;
                st.trace.collisions
            }
            Kind::Sample => {
                st.trace.samples += 1;
                st.trace.samples
            }
            Kind::Ik => {
                st.trace.iks += 1;
                st.trace.iks
            }
        };
        if st.keep_events {
            st.trace.events.push((st.seq, kind));
            st.trace.where_.push((path, key));
        }
        simctx::log(simctx::EV_SEAM, kind as u64, st.seq);
        match st.cancel {
            Cancel::At(k, at) if k == kind && at == n && st.trace.raised_at.is_none() => {
                st.trace.raised_at = Some(st.seq);
                st.stop.clone()
            }
            _ => None,
        }
    });
    if let Some(f) = raise {
        simctx::log(simctx::EV_FAULT, 2, 0);
        f.store(true, Ordering::SeqCst);
    }
    if simctx::active() {
        shuttle::thread::yield_now();
    }
}

pub fn joints_key(q: &Joints) -> u64 {
    simctx::mix(&[q[0].to_bits(), q[1].to_bits(), q[2].to_bits(), q[3].to_bits(), q[4].to_bits(), q[5].to_bits()])
}

pub struct Probe {
    pub inner: Arc<dyn Kinematics>,
}

impl Kinematics for Probe {
    fn inverse(&self, pose: &Pose) -> Solutions {
        seam(Kind::Ik, 0);
        self.inner.inverse(pose)
    }
    fn inverse_continuing(&self, pose: &Pose, previous: &Joints) -> Solutions {
        seam(Kind::Ik, joints_key(previous));
        self.inner.inverse_continuing(pose, previous)
    }
    fn forward(&self, qs: &Joints) -> Pose {
        self.inner.forward(qs)
    }
    fn inverse_5dof(&self, pose: &Pose, j6: f64) -> Solutions {
        seam(Kind::Ik, 0);
        self.inner.inverse_5dof(pose, j6)
    }
    fn inverse_continuing_5dof(&self, pose: &Pose, prev: &Joints) -> Solutions {
        seam(Kind::Ik, joints_key(prev));
        self.inner.inverse_continuing_5dof(pose, prev)
    }
    fn constraints(&self) -> &Option<Constraints> {
        seam(Kind::Sample, 0);
        self.inner.constraints()
    }
    fn kinematic_singularity(&self, qs: &Joints) -> Option<Singularity> {
        self.inner.kinematic_singularity(qs)
    }
    fn forward_with_joint_poses(&self, joints: &Joints) -> [Pose; 6] {
        seam(Kind::Collision, joints_key(joints));
        self.inner.forward_with_joint_poses(joints)
    }
}
