//! Determinism self-test: every simulated execution must be a pure function of its explicit
//! description. The same cases are executed (1) in this process on up to 16 driver threads,
//! (2) again in this process in reverse order (so each case meets a different engine thread with
//! a different history), and (3) in a fresh child process on a single thread. The complete
//! event-log hashes (scheduler decisions, item takes, random draws, seam events, race winners)
//! and result hashes must agree line by line. A mismatch is a harness error (exit 2), never a
//! verdict.

use crate::report;

fn lines_for(seed: u64, n: u64, reverse: bool) -> Vec<String> {
    let order: Vec<u64> = if reverse { (0..n).rev().collect() } else { (0..n).collect() };
    let results: std::sync::Mutex<Vec<(u64, Vec<String>)>> = std::sync::Mutex::new(Vec::new());
    let next = std::sync::atomic::AtomicUsize::new(0);
    std::thread::scope(|s| {
        for _ in 0..report::jobs() {
            s.spawn(|| loop {
                let k = next.fetch_add(1, std::sync::atomic::Ordering::SeqCst);
                if k >= order.len() {
                    break;
                }
                let i = order[k];
                let mut l = Vec::new();
                l.extend(crate::c10::digest(seed, i));
                l.extend(crate::c11::digest(seed, i));
                l.extend(crate::c14::digest(seed, i));
                l.extend(crate::c13::digest(seed, i));
                l.extend(crate::c12::digest(seed, i));
                results.lock().unwrap().push((i, l));
            });
        }
    });
    let mut all = results.into_inner().unwrap();
    all.sort_by_key(|(i, _)| *i);
    all.into_iter().flat_map(|(_, l)| l).collect()
}

/// `opwsim digest <n>`: print the digest lines (used by the child process).
pub fn digest_main(seed: u64, n: u64) -> i32 {
    for l in lines_for(seed, n, false) {
        report::say(&l);
    }
    0
}

pub fn run(seed: u64, n: u64) -> i32 {
    let started = std::time::Instant::now();
    let a = lines_for(seed, n, false);
    let b = lines_for(seed, n, true);
    let mut bad = 0;
    if a != b {
        for (x, y) in a.iter().zip(&b) {
            if x != y {
                report::say(&format!("HARNESS-ERROR: nondeterminism within one process:\n  {x}\n  {y}"));
                bad += 1;
                if bad > 5 {
                    break;
                }
            }
        }
    }
    // fresh process, one driver thread
    let exe = std::env::current_exe().expect("current_exe");
    let out = std::process::Command::new(exe)
        .args(["digest", &n.to_string()])
        .env("VERIF_JOBS", "1")
        .env("VERIF_SEED", seed.to_string())
        .env_remove("OPWSIM_REPORT_FD")
        .stdout(std::process::Stdio::null())
        .output();
    match out {
        Ok(o) => {
            let text = String::from_utf8_lossy(&o.stderr);
            let c: Vec<String> = text.lines().filter(|l| l.starts_with('C')).map(|s| s.to_string()).collect();
            if c != a {
                report::say(&format!("HARNESS-ERROR: nondeterminism across processes / thread counts: {} vs {} lines", a.len(), c.len()));
                for (x, y) in a.iter().zip(&c) {
                    if x != y {
                        report::say(&format!("  {x}\n  {y}"));
                        bad += 1;
                        if bad > 5 {
                            break;
                        }
                    }
                }
                bad += 1;
            }
        }
        Err(e) => {
            report::say(&format!("HARNESS-ERROR: cannot start child process: {e}"));
            bad += 1;
        }
    }
    report::say(&format!(
        "selftest seed={seed}: {} executions x 3 runs (16 threads, reversed order, fresh single-thread process) compared, {} mismatches, {:.1}s",
        a.len(),
        bad,
        started.elapsed().as_secs_f64()
    ));
    if bad > 0 {
        2
    } else {
        0
    }
}
