//! C19 — parameter YAML round-trips, every documented syntax variant parses, and a damaged,
//! missing or unreadable file yields an error value, never a panic.
//!
//! The parameter file is a simulated disk object. The simulator decides its content and the
//! fault (crash during write, overwrite without truncation, torn blocks, bit flip, duplicated
//! block, zero fill, invalid UTF-8, removal, replacement by a directory); the state is then
//! materialised under a scratch directory and the REAL `Parameters::from_yaml_file(path)` reads it.

use crate::report::{self, CheckMeta, Tally, Violation};
use crate::sim;
use rs_opw_kinematics::parameter_error::ParameterError;
use rs_opw_kinematics::parameters::opw_kinematics::Parameters;
use serde::{Deserialize, Serialize};
use serde_json::{json, Value};
use simctx::Rng;
use std::path::{Path, PathBuf};

#[derive(Clone, Debug, Serialize, Deserialize, PartialEq)]
pub struct ParamSpec {
    /// a1, a2, b, c1, c2, c3, c4
    pub geo: [f64; 7],
    pub offsets: [f64; 6],
    pub signs: [i8; 6],
    pub dof: i8,
}

impl ParamSpec {
    fn params(&self) -> Parameters {
        Parameters {
            a1: self.geo[0],
            a2: self.geo[1],
            b: self.geo[2],
            c1: self.geo[3],
            c2: self.geo[4],
            c3: self.geo[5],
            c4: self.geo[6],
            offsets: self.offsets,
            sign_corrections: self.signs,
            dof: self.dof,
        }
    }
}

/// Syntactic choices of the documented format (the YamlModel writer).
#[derive(Clone, Debug, Serialize, Deserialize, PartialEq)]
pub struct Variant {
    /// integral-valued numbers are written without a decimal point (`b: 0`)
    pub integers: bool,
    /// offsets as `deg(x)` (true) or plain radians (false)
    pub degrees: bool,
    /// arrays with five entries (the sixth is implied)
    pub five: bool,
    /// 0 = absent, 1 = top level (as documented), 2 = inside the geometric block (as the fixtures have it)
    pub dof_place: u8,
    pub omit_offsets: bool,
    pub omit_signs: bool,
    pub comments: bool,
    pub crlf: bool,
    /// arrays in YAML block style (one `- item` per line) instead of flow style `[a, b]`
    #[serde(default)]
    pub block: bool,
    /// a comment header of about this many bytes full of multi-byte UTF-8 characters (0 = none):
    /// makes the file several KiB long and puts multi-byte characters across every block boundary
    #[serde(default)]
    pub header_bytes: usize,
    /// with `degrees`: entries whose bit is set are written as plain radians all the same (an
    /// array may mix the two spellings)
    #[serde(default)]
    pub plain_mask: u8,
}

#[derive(Clone, Debug, Serialize, Deserialize, PartialEq)]
pub enum Source {
    /// content = the library's own `Parameters::to_yaml()`
    ToYaml(ParamSpec),
    /// content = the documented format written by the harness' model writer
    Model(ParamSpec, Variant),
    /// arbitrary bytes
    Raw(Vec<u8>),
    /// content = `to_yaml()` of the first set, called while the other sets are being serialised by
    /// concurrent simulated caller tasks (one per set) under the given seeded schedule: whatever
    /// the writer shares between callers (a memo, a scratch buffer) is contended
    ToYamlRacing(ParamSpec, Vec<ParamSpec>, crate::sim::SimCfg),
}

#[derive(Clone, Debug, Serialize, Deserialize, PartialEq)]
pub enum Op {
    /// complete, durable write of source #i
    Write(usize),
    /// crash while writing source #i to a fresh file: only the first k bytes survive
    CrashDuringWrite(usize, usize),
    /// source #i written over the existing file without truncating it (stale tail survives)
    OverwriteNoTruncate(usize),
    /// source #i written over the existing file (or zeros), only the 512-byte blocks in `mask` persisted
    Torn(usize, u32),
    FlipBit(usize),
    DupBlock(usize, usize),
    ZeroFill(usize, usize),
    InvalidUtf8(usize),
    Remove,
    ReplaceByDir,
    /// the path becomes a named pipe through which source #i is delivered (length unknown to stat)
    Fifo(usize),
}

#[derive(Clone, Debug, Serialize, Deserialize)]
pub struct Case {
    pub sources: Vec<Source>,
    pub ops: Vec<Op>,
    /// modification time (seconds since the epoch) the simulated disk stamps on the file after the
    /// operations; None = whatever the real clock says. A constant stamp is a disk with coarse
    /// timestamps written twice within one tick, or files restored with their timestamps (cp -p,
    /// tar, rsync -t): content changes, (path, length, mtime) need not.
    #[serde(default)]
    pub mtime_s: Option<u64>,
    /// history entries only: instead of one explicit read, re-run every read of base scenario
    /// (tier, seed, shard, base) in order, exactly as the shard did
    #[serde(default)]
    pub regen: Option<(String, u64, usize, usize)>,
    /// with `regen`: stop after this many reads of the base scenario (the reads that preceded a
    /// particular one)
    #[serde(default)]
    pub regen_reads: Option<usize>,
}

#[derive(Clone, Debug, PartialEq)]
enum Node {
    Absent,
    Dir,
    Bytes(Vec<u8>),
    Fifo(Vec<u8>),
}

#[derive(Clone, Debug)]
pub struct Fail {
    pub clause: String,
    pub signature: String,
    pub detail: String,
}

fn fmt_num(x: f64, integers: bool) -> String {
    if x == x.trunc() && x.abs() < 1e15 {
        if integers {
            format!("{}", x as i64)
        } else {
            format!("{:.1}", x)
        }
    } else {
        format!("{}", x)
    }
}

/// The documented format, written by the harness (independent of `to_yaml`).
fn model_yaml(p: &ParamSpec, v: &Variant) -> String {
    let nl = if v.crlf { "\r\n" } else { "\n" };
    let mut s = String::new();
    if v.header_bytes > 0 {
        // "# Brandstötter, Angerer, Hofbaur — µ°±" style lines; the first line has a variable
        // number of ASCII characters so that the alignment of the multi-byte ones shifts
        s.push_str("# ");
        for _ in 0..(v.header_bytes % 7) {
            s.push('x');
        }
        s.push_str(nl);
        while s.len() < v.header_bytes {
            s.push_str("# Brandstötter öäüß µ°± éèê — ∑∆ 機械");
            s.push_str(nl);
        }
    }
    if v.comments {
        s.push_str("# generated robot");
        s.push_str(nl);
    }
    s.push_str("opw_kinematics_geometric_parameters:");
    s.push_str(nl);
    for (name, val) in ["a1", "a2", "b", "c1", "c2", "c3", "c4"].iter().zip(p.geo.iter()) {
        s.push_str(&format!("  {}: {}", name, fmt_num(*val, v.integers)));
        if v.comments && *name == "b" {
            s.push_str("  # lateral offset");
        }
        s.push_str(nl);
    }
    if v.dof_place == 2 {
        s.push_str(&format!("  dof: {}{}", p.dof, nl));
    }
    let n = if v.five { 5 } else { 6 };
    if !v.omit_offsets {
        let items: Vec<String> = p.offsets[..n]
            .iter()
            .enumerate()
            .map(|(k_, o)| {
                if v.degrees && *o != 0.0 && (v.plain_mask >> (k_ % 8)) & 1 == 0 {
                    format!("deg({})", fmt_num(o.to_degrees(), false))
                } else {
                    fmt_num(*o, v.integers)
                }
            })
            .collect();
        if v.block {
            s.push_str(&format!("opw_kinematics_joint_offsets:{nl}"));
            for it in &items {
                s.push_str(&format!("  - {it}{nl}"));
            }
        } else {
            s.push_str(&format!("opw_kinematics_joint_offsets: [{}]{}", items.join(", "), nl));
        }
    }
    if !v.omit_signs {
        let items: Vec<String> = p.signs[..n].iter().map(|x| x.to_string()).collect();
        if v.block {
            s.push_str(&format!("opw_kinematics_joint_sign_corrections:{nl}"));
            for it in &items {
                s.push_str(&format!("  - {it}{nl}"));
            }
        } else {
            s.push_str(&format!("opw_kinematics_joint_sign_corrections: [{}]{}", items.join(", "), nl));
        }
    }
    if v.dof_place == 1 {
        s.push_str(&format!("dof: {}{}", p.dof, nl));
    }
    s
}

/// What a reader of the documented format must obtain from `model_yaml(p, v)`.
fn model_expectation(p: &ParamSpec, v: &Variant) -> ParamSpec {
    let mut e = p.clone();
    if v.dof_place == 0 {
        e.dof = 6;
    }
    if v.omit_offsets {
        e.offsets = [0.0; 6];
    } else {
        for i in 0..6 {
            if v.five && i == 5 {
                e.offsets[i] = 0.0;
            } else if v.degrees && p.offsets[i] != 0.0 && (v.plain_mask >> (i % 8)) & 1 == 0 {
                // deg(x) with x printed exactly: the reader computes x.to_radians()
                let x: f64 = fmt_num(p.offsets[i].to_degrees(), false).parse().unwrap();
                e.offsets[i] = x.to_radians();
            }
        }
    }
    if v.omit_signs {
        e.signs = [1; 6];
    } else if v.five {
        e.signs[5] = 0;
    }
    if e.dof == 5 {
        e.signs[5] = 0;
    }
    e
}

fn content_of(src: &Source) -> Result<Vec<u8>, String> {
    match src {
        Source::ToYaml(p) => {
            let params = p.params();
            let r = sim::quiet_panics(|| std::panic::catch_unwind(move || params.to_yaml()));
            match r {
                Ok(s) => Ok(s.into_bytes()),
                Err(_) => Err(sim::take_last_panic().unwrap_or_else(|| "panic".into())),
            }
        }
        Source::Model(p, v) => Ok(model_yaml(p, v).into_bytes()),
        Source::Raw(b) => Ok(b.clone()),
        Source::ToYamlRacing(p, others, cfg) => {
            let (p, others) = (p.clone(), others.clone());
            let out = sim::simulate(cfg, move || {
                let mut hs = Vec::new();
                for o in others.iter().cloned() {
                    hs.push(shuttle::thread::spawn(move || {
                        let q = o.params();
                        for _ in 0..2 {
                            let _ = q.to_yaml();
                        }
                    }));
                }
                let text = p.params().to_yaml();
                for h in hs {
                    h.join().unwrap();
                }
                text
            });
            match out.result {
                Ok(s) => Ok(s.into_bytes()),
                Err(a) => Err(format!("{a:?}")),
            }
        }
    }
}

fn apply(node: &Node, op: &Op, contents: &[Vec<u8>]) -> Node {
    let old = match node {
        Node::Bytes(b) => b.clone(),
        _ => Vec::new(),
    };
    match op {
        Op::Write(i) => Node::Bytes(contents[*i].clone()),
        Op::CrashDuringWrite(i, k) => Node::Bytes(contents[*i][..(*k).min(contents[*i].len())].to_vec()),
        Op::OverwriteNoTruncate(i) => {
            let new = &contents[*i];
            let mut b = new.clone();
            if old.len() > new.len() {
                b.extend_from_slice(&old[new.len()..]);
            }
            Node::Bytes(b)
        }
        Op::Torn(i, mask) => {
            let new = &contents[*i];
            let len = new.len().max(old.len());
            let mut b = vec![0u8; len];
            b[..old.len()].copy_from_slice(&old);
            let blocks = (new.len() + 511) / 512;
            for k in 0..blocks {
                if mask & (1 << k) != 0 {
                    let lo = k * 512;
                    let hi = (lo + 512).min(new.len());
                    b[lo..hi].copy_from_slice(&new[lo..hi]);
                }
            }
            // the file length is whatever the last persisted block made it (size update torn too)
            let keep = (0..blocks).rev().find(|k| mask & (1 << k) != 0).map(|k| ((k + 1) * 512).min(new.len())).unwrap_or(0).max(old.len());
            b.truncate(keep);
            Node::Bytes(b)
        }
        Op::FlipBit(bit) => {
            let mut b = old;
            if !b.is_empty() {
                let i = (bit / 8) % b.len();
                b[i] ^= 1 << (bit % 8);
            }
            Node::Bytes(b)
        }
        Op::DupBlock(at, len) => {
            let mut b = old;
            if !b.is_empty() {
                let at = at % b.len();
                let hi = (at + len).min(b.len());
                let chunk = b[at..hi].to_vec();
                let mut nb = b[..hi].to_vec();
                nb.extend_from_slice(&chunk);
                nb.extend_from_slice(&b[hi..]);
                b = nb;
            }
            Node::Bytes(b)
        }
        Op::ZeroFill(at, len) => {
            let mut b = old;
            if !b.is_empty() {
                let at = at % b.len();
                let hi = (at + len).min(b.len());
                for x in &mut b[at..hi] {
                    *x = 0;
                }
            }
            Node::Bytes(b)
        }
        Op::InvalidUtf8(at) => {
            let mut b = old;
            let at = if b.is_empty() { 0 } else { at % b.len() };
            b.insert(at, 0xFF);
            Node::Bytes(b)
        }
        Op::Remove => Node::Absent,
        Op::ReplaceByDir => Node::Dir,
        Op::Fifo(i) => Node::Fifo(contents[*i].clone()),
    }
}

fn materialise(dir: &Path, node: &Node, mtime_s: Option<u64>) -> PathBuf {
    let path = materialise_inner(dir, node);
    if let (Node::Bytes(_), Some(t)) = (node, mtime_s) {
        if let Ok(f) = std::fs::OpenOptions::new().write(true).open(&path) {
            let _ = f.set_modified(std::time::UNIX_EPOCH + std::time::Duration::from_secs(t));
        }
    }
    path
}

fn materialise_inner(dir: &Path, node: &Node) -> PathBuf {
    let path = dir.join("robot.yaml");
    let _ = std::fs::remove_file(&path);
    let _ = std::fs::remove_dir_all(&path);
    match node {
        Node::Absent => {}
        Node::Dir => std::fs::create_dir_all(&path).expect("scratch dir"),
        Node::Bytes(b) => std::fs::write(&path, b).expect("scratch write"),
        Node::Fifo(b) => {
            // a real named pipe with a writer thread (the reader blocks in open() until then)
            let ok = std::process::Command::new("mkfifo").arg(&path).status().map(|s| s.success()).unwrap_or(false);
            if ok {
                let (p, data) = (path.clone(), b.clone());
                std::thread::spawn(move || {
                    use std::io::Write;
                    if let Ok(mut f) = std::fs::OpenOptions::new().write(true).open(&p) {
                        let _ = f.write_all(&data);
                    }
                });
            } else {
                std::fs::write(&path, b).expect("scratch write");
            }
        }
    }
    path
}

fn load(path: &Path) -> Result<Result<Parameters, ParameterError>, String> {
    let p = path.to_path_buf();
    let r = sim::quiet_panics(|| std::panic::catch_unwind(move || Parameters::from_yaml_file(&p)));
    match r {
        Ok(x) => Ok(x),
        Err(_) => Err(sim::take_last_panic().unwrap_or_else(|| "panic".into())),
    }
}

fn compare(got: &Parameters, exp: &ParamSpec, offset_tol: f64) -> Option<String> {
    let g = [got.a1, got.a2, got.b, got.c1, got.c2, got.c3, got.c4];
    let names = ["a1", "a2", "b", "c1", "c2", "c3", "c4"];
    for i in 0..7 {
        if g[i].to_bits() != exp.geo[i].to_bits() && !(g[i] == exp.geo[i]) {
            return Some(format!("{} = {} instead of {}", names[i], g[i], exp.geo[i]));
        }
    }
    if got.dof != exp.dof {
        return Some(format!("dof = {} instead of {}", got.dof, exp.dof));
    }
    if got.sign_corrections != exp.signs {
        return Some(format!("sign corrections {:?} instead of {:?}", got.sign_corrections, exp.signs));
    }
    for i in 0..6 {
        if (got.offsets[i] - exp.offsets[i]).abs() > offset_tol {
            return Some(format!("offset {} = {} instead of {}", i + 1, got.offsets[i], exp.offsets[i]));
        }
    }
    None
}

fn kind_of_fault(ops: &[Op]) -> String {
    let mut names: Vec<&str> = ops
        .iter()
        .filter_map(|o| match o {
            Op::Write(_) => None,
            Op::CrashDuringWrite(..) => Some("crash-during-write"),
            Op::OverwriteNoTruncate(_) => Some("overwrite-without-truncate"),
            Op::Torn(..) => Some("torn-write"),
            Op::FlipBit(_) => Some("bit-flip"),
            Op::DupBlock(..) => Some("duplicated-block"),
            Op::ZeroFill(..) => Some("zero-fill"),
            Op::InvalidUtf8(_) => Some("invalid-utf8"),
            Op::Remove => Some("removed"),
            Op::ReplaceByDir => Some("replaced-by-directory"),
            Op::Fifo(_) => Some("named-pipe"),
        })
        .collect();
    names.dedup();
    if names.is_empty() {
        "fault-free".into()
    } else {
        names.join("+")
    }
}

/// Expected parameters when the surviving bytes are exactly source #i.
fn expectation(src: &Source) -> Option<(ParamSpec, f64, &'static str)> {
    match src {
        // printed precision of offsets: deg({:.4}) -> half a unit of the last printed digit
        Source::ToYaml(p) => {
            let mut e = p.clone();
            if e.dof == 5 {
                e.signs[5] = 0;
            }
            Some((e, 0.5e-4f64.to_radians() * 1.0001, "round-trip"))
        }
        Source::Model(p, v) => Some((model_expectation(p, v), 1e-12, "documented-variant")),
        Source::Raw(_) => None,
        Source::ToYamlRacing(p, _, _) => expectation(&Source::ToYaml(p.clone())),
    }
}

pub fn judge_in(case: &Case, scratch: &Path) -> Vec<Fail> {
    let mut fails = Vec::new();
    let mut contents = Vec::new();
    for (i, s) in case.sources.iter().enumerate() {
        match content_of(s) {
            Ok(c) => contents.push(c),
            Err(msg) => {
                fails.push(Fail { clause: "c:panic-in-writer".into(), signature: "C19/panic/to_yaml".into(), detail: format!("to_yaml panicked for source #{i}: {msg}") });
                contents.push(Vec::new());
            }
        }
    }
    let mut node = Node::Absent;
    for op in &case.ops {
        node = apply(&node, op, &contents);
    }
    let path = materialise(scratch, &node, case.mtime_s);
    let fault = kind_of_fault(&case.ops);
    match load(&path) {
        Err(msg) => {
            // which statement panicked is the structural part of the signature
            let at = msg.rsplit(" @ ").next().unwrap_or("").to_string();
            fails.push(Fail {
                clause: "c:panic".into(),
                signature: format!("C19/panic/{}", at.rsplit('/').next().unwrap_or(&at)),
                detail: format!("from_yaml_file panicked ({msg}) on a file in state {fault}: {:?}", preview(&node)),
            });
        }
        Ok(res) => {
            match (&node, &res) {
                (Node::Absent, Err(ParameterError::IoError(_))) | (Node::Dir, Err(ParameterError::IoError(_))) => {}
                (Node::Absent, other) | (Node::Dir, other) => fails.push(Fail {
                    clause: "d:io-error-expected".into(),
                    signature: format!("C19/io-error-expected/{fault}"),
                    detail: format!("path is {:?} but the loader returned {}", node, show(other)),
                }),
                (Node::Bytes(b), _) | (Node::Fifo(b), _) => {
                    // if the surviving bytes are exactly a complete source, its expectation holds
                    for (i, src) in case.sources.iter().enumerate() {
                        if *b == contents[i] && !contents[i].is_empty() {
                            if let Some((exp, tol, what)) = expectation(src) {
                                let variant = match src {
                                    Source::ToYaml(p) => format!("to_yaml/{}", roundtrip_features(p)),
                                    Source::Model(p, v) => format!("model/{}", variant_features(p, v)),
                                    Source::Raw(_) => "raw".into(),
                                    Source::ToYamlRacing(p, ..) => format!("to_yaml-with-concurrent-callers/{}", roundtrip_features(p)),
                                };
                                match &res {
                                    Err(e) => fails.push(Fail {
                                        clause: format!("{}:rejected", if what == "round-trip" { "a" } else { "b" }),
                                        signature: format!("C19/{what}/rejected/{}", e.to_string().split(':').next().unwrap_or("").trim().to_lowercase().replace(' ', "-")),
                                        detail: format!("a complete valid file ({what}, {variant}, state {fault}) was rejected: {e}\n{}", String::from_utf8_lossy(b)),
                                    }),
                                    Ok(got) => {
                                        if let Some(d) = compare(got, &exp, tol) {
                                            fails.push(Fail {
                                                clause: format!("{}:wrong-value", if what == "round-trip" { "a" } else { "b" }),
                                                signature: format!("C19/{what}/wrong-value/{}", d.split(' ').next().unwrap_or("")),
                                                detail: format!("a complete valid file ({what}, {variant}, state {fault}) parsed to wrong data: {d}\n{}", String::from_utf8_lossy(b)),
                                            });
                                        }
                                    }
                                }
                            }
                            break;
                        }
                    }
                }
            }
        }
    }
    fails
}

fn roundtrip_features(p: &ParamSpec) -> String {
    let mut f = Vec::new();
    if p.geo.iter().any(|x| *x == x.trunc()) {
        f.push("integral-length");
    }
    if p.dof == 5 {
        f.push("dof5");
    }
    if f.is_empty() {
        f.push("plain");
    }
    f.join("+")
}

fn variant_features(p: &ParamSpec, v: &Variant) -> String {
    let mut f = Vec::new();
    if v.integers && p.geo.iter().any(|x| *x == x.trunc()) {
        f.push("integer-length");
    }
    if v.dof_place == 1 && p.dof != 6 {
        f.push("top-level-dof");
    }
    if v.dof_place == 2 && p.dof != 6 {
        f.push("nested-dof");
    }
    if v.five {
        f.push("five-entries");
    }
    if v.degrees {
        f.push("deg");
    }
    if v.omit_offsets || v.omit_signs {
        f.push("omitted-sections");
    }
    if v.crlf {
        f.push("crlf");
    }
    if v.block {
        f.push("block-arrays");
    }
    if v.header_bytes > 0 {
        f.push("long-utf8-header");
    }
    if f.is_empty() {
        f.push("plain");
    }
    f.join("+")
}

fn preview(n: &Node) -> String {
    match n {
        Node::Bytes(b) | Node::Fifo(b) => {
            let s = String::from_utf8_lossy(&b[..b.len().min(160)]).to_string();
            format!("{} bytes: {s:?}", b.len())
        }
        other => format!("{other:?}"),
    }
}

fn show(r: &Result<Parameters, ParameterError>) -> String {
    match r {
        Ok(_) => "Ok(parameters)".into(),
        Err(e) => format!("Err({e})"),
    }
}

struct Scratch(PathBuf);
impl Scratch {
    fn new(tag: &str) -> Scratch {
        let p = report::verif_root().join("sim/target/scratch").join(format!("c19-{}-{}", std::process::id(), tag));
        let _ = std::fs::remove_dir_all(&p);
        std::fs::create_dir_all(&p).expect("cannot create scratch directory");
        Scratch(p)
    }
}
impl Drop for Scratch {
    fn drop(&mut self) {
        let _ = std::fs::remove_dir_all(&self.0);
    }
}

pub fn replay_all(case: &Value) -> Vec<(String, String)> {
    match serde_json::from_value::<Case>(case.clone()) {
        Ok(c) => {
            // one scratch directory for everything this process replays: the history and the
            // failing read use the same path, as they did in the shard
            static REPLAY_DIR: std::sync::OnceLock<Scratch> = std::sync::OnceLock::new();
            let s = REPLAY_DIR.get_or_init(|| Scratch::new("replay"));
            if let Some((tier_name, seed, shard, base)) = &c.regen {
                let t = tier(tier_name);
                READ_LIMIT.with(|l| l.set(c.regen_reads));
                let mut scratch_tally = Tally::default();
                let mut seen = std::collections::BTreeSet::new();
                run_base(*seed, *shard, *base, &t, &s.0, &mut scratch_tally, &mut seen);
                READ_LIMIT.with(|l| l.set(None));
                return Vec::new();
            }
            judge_in(&c, &s.0).into_iter().map(|f| (f.clause, f.detail)).collect()
        }
        Err(e) => vec![("harness:bad-case".into(), e.to_string())],
    }
}

pub fn case_json(tier_name: &str, seed: u64, shard: usize, base: usize) -> Option<Value> {
    Some(json!({"check": "C19", "case": Case { sources: vec![], ops: vec![], mtime_s: None, regen: Some((tier_name.to_string(), seed, shard, base)), regen_reads: None }}))
}

fn gen_params(w: &mut Rng) -> ParamSpec {
    let len = |w: &mut Rng| -> f64 {
        match w.below(8) {
            0 => 0.0,
            1 => 1.0,
            2 => -(w.range_usize(1, 3) as f64),
            3 => (w.range_usize(0, 2000) as f64) / 1000.0,
            4 => -(w.range_usize(0, 500) as f64) / 1000.0,
            5 => w.range_usize(2, 5) as f64,
            _ => w.range_f64(-0.3, 1.5),
        }
    };
    let off = |w: &mut Rng| -> f64 {
        match w.below(10) {
            0 | 1 => 0.0,
            2 => (*w.pick(&[-180.0f64, -90.0, 90.0, 180.0, 45.0])).to_radians(),
            // on the print lattice of deg({:.4})
            3 => ((w.range_usize(0, 3_600_000) as f64) / 10_000.0 - 180.0).to_radians(),
            // integral number of radians (written as an integer by the integer variant)
            4 => *w.pick(&[1.0, -1.0, 2.0, -2.0, 3.0, -3.0]),
            // tiny but non-zero: around and below the printed precision
            5 => w.range_f64(1e-7, 2e-4) * if w.chance(0.5) { 1.0 } else { -1.0 },
            // just either side of a rounding boundary of the fourth printed decimal
            6 => ((w.range_usize(0, 3_600_000) as f64 + 0.5 + w.range_f64(-0.02, 0.02)) / 10_000.0 - 180.0).to_radians(),
            // a full turn and more
            7 => *w.pick(&[13.5, -7.0, 2.0 * std::f64::consts::PI, -2.0 * std::f64::consts::PI, 4.0 * std::f64::consts::PI, 6.5]),
            _ => w.range_f64(-3.2, 3.2),
        }
    };
    let dof = if w.chance(0.3) { 5 } else { 6 };
    let mut signs: [i8; 6] = std::array::from_fn(|_| if w.chance(0.5) { 1 } else { -1 });
    if dof == 5 || w.chance(0.1) {
        signs[5] = 0;
    }
    let mut geo: [f64; 7] = std::array::from_fn(|_| len(w));
    // a robot described in another unit of length (whole millimetres or centimetres), and very
    // small / very large values: the file format carries numbers, not units
    match w.below(12) {
        0 => geo = std::array::from_fn(|_| (w.range_usize(0, 3000) as f64 - 400.0).round()),
        1 => geo = std::array::from_fn(|_| w.range_usize(0, 250) as f64),
        2 => {
            let k = w.below(7);
            geo[k] = *w.pick(&[10.0, -10.0, 11.0, 100.0, 1000.0, 1e6, 12345.678, 1e-6, -2.5e-5, 1e9, 9007199254740992.0]);
        }
        _ => {}
    }
    ParamSpec { geo, offsets: std::array::from_fn(|_| off(w)), signs, dof }
}

fn gen_variant(w: &mut Rng) -> Variant {
    Variant {
        integers: w.chance(0.5),
        degrees: w.chance(0.5),
        five: w.chance(0.25),
        dof_place: w.below(3) as u8,
        omit_offsets: w.chance(0.15),
        omit_signs: w.chance(0.15),
        comments: w.chance(0.4),
        crlf: w.chance(0.15),
        block: w.chance(0.3),
        header_bytes: if w.chance(0.25) { w.range_usize(3900, 9000) } else { 0 },
        plain_mask: if w.chance(0.4) { w.below(64) as u8 } else { 0 },
    }
}

pub struct Tier {
    pub shards: usize,
    pub bases_per_shard: usize,
    /// enumerate every truncation offset and every single-bit flip for this many bases per shard
    pub exhaustive_bases: usize,
    pub random_faults: usize,
}

pub fn tier(name: &str) -> Tier {
    match name {
        "thorough" => Tier { shards: 128, bases_per_shard: 40, exhaustive_bases: 40, random_faults: 300 },
        "smoke" => Tier { shards: 4, bases_per_shard: 4, exhaustive_bases: 1, random_faults: 20 },
        _ => Tier { shards: 32, bases_per_shard: 12, exhaustive_bases: 4, random_faults: 60 },
    }
}

thread_local! {
    /// index of the next read within the base scenario being run, and the read at which to stop
    static READ_IDX: std::cell::Cell<usize> = const { std::cell::Cell::new(0) };
    static READ_LIMIT: std::cell::Cell<Option<usize>> = const { std::cell::Cell::new(None) };
    static REGEN_KEY: std::cell::RefCell<Option<(String, u64)>> = const { std::cell::RefCell::new(None) };
}

fn run_case(case: &Case, scratch: &Path, tally: &mut Tally, seen: &mut std::collections::BTreeSet<(String, String)>, origin: (usize, usize)) {
    let idx = READ_IDX.with(|i| {
        let k = i.get();
        i.set(k + 1);
        k
    });
    if READ_LIMIT.with(|l| l.get()).map(|l| idx >= l).unwrap_or(false) {
        return;
    }
    tally.evaluations += 1;
    let fault = kind_of_fault(&case.ops);
    // one count per fault kind actually applied in this read's history
    for kind in fault.split('+') {
        tally.bump(&format!("fault_{}", kind.replace('-', "_")), 1);
    }
    let fails = judge_in(case, scratch);
    for f in fails {
        if !seen.insert((f.clause.clone(), f.signature.clone())) {
            continue;
        }
        tally.bump("raw_failures", 1);
        let min = minimise_case(case, &f, scratch);
        let detail = judge_in(&min, scratch).into_iter().find(|g| g.clause == f.clause && g.signature == f.signature).map(|g| g.detail).unwrap_or(f.detail.clone());
        tally.violations.push(Violation {
            property: "C19".into(),
            clause: f.clause.clone(),
            signature: f.signature.clone(),
            detail,
            // fallback form: the read as it was made, preceded by the reads that came before it in
            // its base scenario (a failure that depends on what the loader or the writer kept
            // from earlier calls does not survive minimisation of the case)
            case: match REGEN_KEY.with(|k| k.borrow().clone()) {
                Some((tier_name, seed)) => json!({"check": "C19", "case": min, "fallback": {
                    "check": "C19", "case": case,
                    "history": [{"check": "C19", "case": Case { sources: vec![], ops: vec![], mtime_s: None, regen: Some((tier_name, seed, origin.0, origin.1)), regen_reads: Some(idx) }}],
                }}),
                None => json!({"check": "C19", "case": min}),
            },
            origin: Some(origin),
        });
    }
}

fn minimise_case(case: &Case, f: &Fail, scratch: &Path) -> Case {
    let still = |c: &Case| judge_in(c, scratch).iter().any(|g| g.clause == f.clause && g.signature == f.signature);
    let mut cur = case.clone();
    // drop operations
    let mut i = 0;
    while i < cur.ops.len() {
        let mut t = cur.clone();
        t.ops.remove(i);
        if !t.ops.is_empty() && still(&t) {
            cur = t;
        } else {
            i += 1;
        }
    }
    // freeze the surviving bytes as one raw source if that keeps the failure (smaller, explicit)
    if f.clause.starts_with("c:") {
        let contents: Vec<Vec<u8>> = cur.sources.iter().map(|s| content_of(s).unwrap_or_default()).collect();
        let mut node = Node::Absent;
        for op in &cur.ops {
            node = apply(&node, op, &contents);
        }
        if let Node::Bytes(b) = node {
            let t = Case { sources: vec![Source::Raw(b.clone())], ops: vec![Op::Write(0)], mtime_s: case.mtime_s, regen: None, regen_reads: None };
            if still(&t) {
                cur = t;
                // shrink the bytes: drop lines, then halves
                loop {
                    let Source::Raw(bytes) = &cur.sources[0] else { break };
                    let bytes = bytes.clone();
                    let mut progressed = false;
                    let lines: Vec<&[u8]> = bytes.split_inclusive(|c| *c == b'\n').collect();
                    for k in 0..lines.len() {
                        let cand: Vec<u8> = lines.iter().enumerate().filter(|(i, _)| *i != k).flat_map(|(_, l)| l.iter().copied()).collect();
                        let t = Case { sources: vec![Source::Raw(cand)], ops: vec![Op::Write(0)], mtime_s: case.mtime_s, regen: None, regen_reads: None };
                        if still(&t) {
                            cur = t;
                            progressed = true;
                            break;
                        }
                    }
                    if !progressed {
                        break;
                    }
                }
            }
        }
    }
    cur
}

/// Every read of base scenario (shard, base), in order. Pure function of (seed, shard, base, tier)
/// and of whatever state the library keeps between calls.
fn run_base(seed: u64, shard: usize, base: usize, t: &Tier, scratch: &Path, tally: &mut Tally, seen: &mut std::collections::BTreeSet<(String, String)>) {
    READ_IDX.with(|i| i.set(0));
    let mut w = Rng::derive(seed, shard as u64, base as u64, "c19.workload");
    let pa = gen_params(&mut w);
    let pb = gen_params(&mut w);
    let src_a = if w.chance(0.5) { Source::ToYaml(pa.clone()) } else { Source::Model(pa.clone(), gen_variant(&mut w)) };
    let src_b = if w.chance(0.5) { Source::ToYaml(pb.clone()) } else { Source::Model(pb.clone(), gen_variant(&mut w)) };
    let sources = vec![src_a.clone(), src_b.clone()];
    let la = content_of(&src_a).map(|c| c.len()).unwrap_or(0);
    tally.bump(match &src_a { Source::ToYaml(_) => "bases_written_by_to_yaml", _ => "bases_written_by_model" }, 1);
    if let Source::Model(_, v) = &src_a {
        if v.integers { tally.bump("variant_integers", 1); }
        if v.degrees { tally.bump("variant_deg", 1); }
        if v.five { tally.bump("variant_five_entries", 1); }
        tally.bump(&format!("variant_dof_place_{}", v.dof_place), 1);
        if v.crlf { tally.bump("variant_crlf", 1); }
        if v.block { tally.bump("variant_block_arrays", 1); }
    }
    if pa.dof == 5 { tally.bump("bases_dof5", 1); }
    if tally.samples.len() < 2 {
        tally.samples.push(json!({
            "source": match &src_a { Source::ToYaml(_) => "Parameters::to_yaml", _ => "documented-format model writer" },
            "content": String::from_utf8_lossy(&content_of(&src_a).unwrap_or_default()),
            "ops": [format!("{:?}", Op::Write(0)), format!("{:?}", Op::CrashDuringWrite(1, 17))],
        }));
    }
    // the simulated disk's timestamps: mostly a constant stamp (see Case::mtime_s)
    let mtime_s = {
        let mut d = Rng::derive(seed, shard as u64, base as u64, "c19.disk");
        // ... now and then a stamp AHEAD of the reader's clock (clock skew between the machine
        // that wrote a network share and the one that reads it, a clock stepped back since)
        if d.chance(0.7) { Some(1_600_000_000u64) } else if d.chance(0.4) { Some(4_102_444_800u64) } else { None }
    };
    tally.bump(match mtime_s { Some(t) if t > 4_000_000_000 => "bases_on_a_disk_with_mtime_in_the_future (clock skew)", Some(_) => "bases_on_a_disk_with_constant_mtime", None => "bases_on_a_disk_with_real_mtime" }, 1);
    let mk = |ops: Vec<Op>| Case { sources: sources.clone(), ops, mtime_s, regen: None, regen_reads: None };
    // history of the WRITER: the same geometry and offsets serialised twice in a row with other
    // sign corrections / degrees of freedom (a robot and its mirrored or 5-DOF sibling; one object
    // edited through its public fields between two to_yaml calls), and with one length changed
    {
        let mut sib = pa.clone();
        match w.below(3) {
            0 => {
                let j = w.below(if sib.dof == 5 { 5 } else { 6 });
                sib.signs[j] = -sib.signs[j];
            }
            1 => {
                if sib.dof == 6 {
                    sib.dof = 5;
                    sib.signs[5] = 0;
                } else {
                    sib.dof = 6;
                    sib.signs[5] = 1;
                }
            }
            _ => {
                let k = w.below(7);
                sib.geo[k] += 0.125;
            }
        }
        let two = Case { sources: vec![Source::ToYaml(pa.clone()), Source::ToYaml(sib.clone())], ops: vec![Op::Write(1)], mtime_s, regen: None, regen_reads: None };
        tally.bump("history_to_yaml_of_a_sibling_right_after_the_original", 1);
        run_case(&two, scratch, tally, seen, (shard, base));
        let back = Case { sources: vec![Source::ToYaml(sib), Source::ToYaml(pa.clone())], ops: vec![Op::Write(1)], mtime_s, regen: None, regen_reads: None };
        run_case(&back, scratch, tally, seen, (shard, base));
    }
    // concurrent callers of the WRITER: a third of the bases serialise `pa` while one to three
    // other sets (other offsets: every angle differs) are serialised by concurrent simulated tasks
    if base % 3 == 1 {
        let mut r = Rng::derive(seed, shard as u64, base as u64, "c19.racing");
        let others: Vec<ParamSpec> = (0..r.range_usize(1, 3))
            .map(|k| {
                let mut o = if k == 0 { pb.clone() } else { pa.clone() };
                for j in 0..6 {
                    o.offsets[j] = match r.below(4) {
                        0 => 0.0,
                        1 => (pa.offsets[j] + 0.5 * (k as f64 + 1.0)).rem_euclid(3.0),
                        _ => r.range_f64(-3.1, 3.1),
                    };
                }
                o
            })
            .collect();
        let cfg = crate::sim::SimCfg::swarm(&mut r, simctx::mix(&[seed, shard as u64, base as u64, 19]), 0, 200_000);
        let racing = Case { sources: vec![Source::ToYamlRacing(pa.clone(), others, cfg)], ops: vec![Op::Write(0)], mtime_s, regen: None, regen_reads: None };
        tally.bump("to_yaml_with_concurrent_callers_serialising_other_sets", 1);
        run_case(&racing, scratch, tally, seen, (shard, base));
    }
    // fault-free configuration (run separately from the fault-injecting one)
    run_case(&mk(vec![Op::Write(0)]), scratch, tally, seen, (shard, base));
    run_case(&mk(vec![Op::Write(1), Op::Write(0)]), scratch, tally, seen, (shard, base));
    tally.distinct.insert(simctx::mix(&[shard as u64, base as u64, 0]) as u128);
    // enumerated faults
    if base < t.exhaustive_bases {
        for k in 0..=la {
            run_case(&mk(vec![Op::CrashDuringWrite(0, k)]), scratch, tally, seen, (shard, base));
            tally.distinct.insert(simctx::mix(&[shard as u64, base as u64, 1, k as u64]) as u128);
        }
        for bit in 0..la * 8 {
            run_case(&mk(vec![Op::Write(0), Op::FlipBit(bit)]), scratch, tally, seen, (shard, base));
            tally.distinct.insert(simctx::mix(&[shard as u64, base as u64, 2, bit as u64]) as u128);
        }
        tally.bump("bases_with_every_truncation_offset_and_bit_flip", 1);
        for mask in 0..4u32 {
            run_case(&mk(vec![Op::Write(1), Op::Torn(0, mask)]), scratch, tally, seen, (shard, base));
            run_case(&mk(vec![Op::Torn(0, mask)]), scratch, tally, seen, (shard, base));
            tally.distinct.insert(simctx::mix(&[shard as u64, base as u64, 3, mask as u64]) as u128);
        }
    }
    for op in [Op::Remove, Op::ReplaceByDir] {
        run_case(&mk(vec![Op::Write(0), op]), scratch, tally, seen, (shard, base));
    }
    if base % 3 == 0 {
        run_case(&mk(vec![Op::Fifo(0)]), scratch, tally, seen, (shard, base));
    }
    run_case(&mk(vec![Op::Remove]), scratch, tally, seen, (shard, base));
    run_case(&mk(vec![Op::Write(1), Op::OverwriteNoTruncate(0)]), scratch, tally, seen, (shard, base));
    run_case(&mk(vec![Op::Write(0), Op::OverwriteNoTruncate(1)]), scratch, tally, seen, (shard, base));
    tally.distinct.insert(simctx::mix(&[shard as u64, base as u64, 4]) as u128);
    // random 1-3 operation sequences (swarm style)
    for r in 0..t.random_faults {
        let n = w.range_usize(1, 3);
        let mut ops = vec![Op::Write(w.below(2))];
        for _ in 0..n {
            let op = match w.below(11) {
                0 => Op::Write(w.below(2)),
                1 => Op::CrashDuringWrite(w.below(2), w.below(la.max(1) + 1)),
                2 => Op::OverwriteNoTruncate(w.below(2)),
                3 => Op::Torn(w.below(2), w.below(4) as u32),
                4 | 5 => Op::FlipBit(w.below(la.max(1) * 8)),
                6 => Op::DupBlock(w.below(la.max(1)), w.range_usize(1, 64)),
                7 => Op::ZeroFill(w.below(la.max(1)), w.range_usize(1, 64)),
                8 => Op::InvalidUtf8(w.below(la.max(1))),
                9 => Op::Remove,
                _ => Op::ReplaceByDir,
            };
            ops.push(op);
        }
        run_case(&mk(ops), scratch, tally, seen, (shard, base));
        tally.distinct.insert(simctx::mix(&[shard as u64, base as u64, 5, r as u64]) as u128);
    }
    // unusual-but-valid YAML scalars in place of one number of a complete file (no-panic clause)
    if let Ok(text) = String::from_utf8(content_of(&src_a).unwrap_or_default()) {
        let tokens = ["-9223372036854775808", "9223372036854775807", "9223372036854775808", "-129", "128", "255", "256", "1e19", "-0", ".inf", "-.inf", ".nan", ".NaN", "+.INF", "1e400", "-1e400", "0x1F", "0o17", "1_000", "~", "null", "true", "\"0.5\"", "'0.5'", "!!float 1", "&a 1", "*a", "[1]", "{a: 1}", "1.", ".5", "+1", "1e", "deg(.inf)", "deg(1e400)", "deg()", "deg(", ")"];
        // positions of numeric tokens: after ": " or inside arrays
        let bytes = text.as_bytes();
        let mut starts: Vec<(usize, usize)> = Vec::new();
        let mut i = 0;
        while i < bytes.len() {
            let numeric = |c: u8| c.is_ascii_digit() || c == b'-' || c == b'.';
            if numeric(bytes[i]) && (i == 0 || matches!(bytes[i - 1], b' ' | b'[' | b',' | b'(')) {
                let mut j = i;
                while j < bytes.len() && (numeric(bytes[j]) || bytes[j] == b'e') {
                    j += 1;
                }
                if bytes[i..j].iter().any(|c| c.is_ascii_digit()) {
                    starts.push((i, j));
                }
                i = j;
            } else {
                i += 1;
            }
        }
        for _ in 0..t.random_faults / 3 {
            if starts.is_empty() {
                break;
            }
            let (a, b) = *w.pick(&starts);
            let tok = *w.pick(&tokens);
            let mut nb = bytes[..a].to_vec();
            nb.extend_from_slice(tok.as_bytes());
            nb.extend_from_slice(&bytes[b..]);
            let case = Case { sources: vec![Source::Raw(nb)], ops: vec![Op::Write(0)], mtime_s, regen: None, regen_reads: None };
            tally.bump("fault_unusual_yaml_scalar_substituted", 1);
            run_case(&case, scratch, tally, seen, (shard, base));
        }
    }
    // a very long but valid file (a comment block of 70-200 KiB in front of, or between, the
    // entries): nothing in the format limits the length
    {
        let mut lg = Rng::derive(seed, shard as u64, base as u64, "c19.long");
        if lg.chance(0.15) {
            let mut v = gen_variant(&mut lg);
            v.header_bytes = lg.range_usize(66_000, 200_000);
            let long = Case { sources: vec![Source::Model(pa.clone(), v)], ops: vec![Op::Write(0)], mtime_s, regen: None, regen_reads: None };
            tally.bump("bases_with_a_file_longer_than_64_kib", 1);
            run_case(&long, scratch, tally, seen, (shard, base));
        }
    }
    // a parameter NAME damaged into something YAML does not read as a string (a number, null, a
    // boolean, a sequence), and extra keys of that kind: still a file, never a panic
    if let Ok(text) = String::from_utf8(content_of(&src_a).unwrap_or_default()) {
        let mut kd = Rng::derive(seed, shard as u64, base as u64, "c19.keys");
        let names = ["a1", "a2", "b", "c1", "c2", "c3", "c4", "dof", "opw_kinematics_geometric_parameters", "opw_kinematics_joint_offsets", "opw_kinematics_joint_sign_corrections"];
        let keys = ["11", "8", "~", "null", "true", ".1", "1e3", "0x1F", "[c2]", "{a: 1}", "2024", "!!str a1", "\"a1\"", "? a1", "-1", ".inf", ".nan"];
        for _ in 0..(t.random_faults / 3).max(2) {
            let name = *kd.pick(&names);
            let key = *kd.pick(&keys);
            let needle = format!("{name}:");
            let damaged = if kd.chance(0.75) {
                match text.find(&needle) {
                    Some(at) => format!("{}{}:{}", &text[..at], key, &text[at + needle.len()..]),
                    None => continue,
                }
            } else {
                // an extra key inside the parameter section (or at top level)
                match text.find("  a1:") {
                    Some(at) if kd.chance(0.6) => format!("{}  {}: 1\n{}", &text[..at], key, &text[at..]),
                    _ => format!("{}: 1\n{}", key, text),
                }
            };
            let case = Case { sources: vec![Source::Raw(damaged.into_bytes())], ops: vec![Op::Write(0)], mtime_s, regen: None, regen_reads: None };
            tally.bump("fault_parameter_name_replaced_by_a_non_string_key", 1);
            run_case(&case, scratch, tally, seen, (shard, base));
        }
    }
    // arbitrary byte strings for the no-panic clause
    for r in 0..t.random_faults / 2 {
        let len = w.below(200);
        let alphabet: &[u8] = b"abc:[]{}-#\n \t'\"&*!|>%@`,?0123456789.deg()\xff\x00";
        let bytes: Vec<u8> = (0..len).map(|_| if w.chance(0.9) { *w.pick(alphabet) } else { w.below(256) as u8 }).collect();
        let case = Case { sources: vec![Source::Raw(bytes)], ops: vec![Op::Write(0)], mtime_s, regen: None, regen_reads: None };
        tally.bump("raw_byte_strings", 1);
        run_case(&case, scratch, tally, seen, (shard, base));
        tally.distinct.insert(simctx::mix(&[shard as u64, base as u64, 6, r as u64]) as u128);
    }
}

pub fn run(tier_name: &str, seed: u64) -> i32 {
    let t = tier(tier_name);
    let started = std::time::Instant::now();
    let tally = report::run_shards(t.shards, |shard| {
        let mut tally = Tally::default();
        let scratch = Scratch::new(&format!("s{shard}"));
        let mut seen = std::collections::BTreeSet::new();
        for base in 0..t.bases_per_shard {
            report::progress(shard, base);
            REGEN_KEY.with(|k| *k.borrow_mut() = Some((tier_name.to_string(), seed)));
            run_base(seed, shard, base, &t, &scratch.0, &mut tally, &mut seen);
        }
        tally
    });
    let wall = started.elapsed().as_secs_f64();
    let meta = CheckMeta {
        property: "C19",
        tier: if tier_name == "thorough" { "thorough" } else { "quick" },
        seed,
        level: "fault_enumeration",
        rule: "one evaluation = one read of a simulated file by the real Parameters::from_yaml_file after a sequence of 1-4 disk operations. Base files come from the real Parameters::to_yaml or from a model writer of the documented format (integers/reals, deg()/radians, 5/6 entries, dof at top level / nested / absent, optional sections, comments, CRLF). For the enumerated bases EVERY truncation offset and EVERY single-bit flip of the file is injected (exhaustive per base); torn 512-byte-block subsets, overwrite-without-truncate, removal, replacement by a directory, duplicated block, zero fill, invalid UTF-8 and random byte strings are sampled. distinct_nontrivial counts distinct (base file, fault position / operation sequence) pairs.",
        assumptions: vec![
            "read(2)-level faults (EINTR, short reads) are not injected: read_to_string is std's and retries internally".into(),
            "nothing is asserted about Ok values parsed from genuinely damaged content (the property does not); a fault that leaves a complete valid file must still parse to the right data".into(),
            "dof=5 parameter sets are generated with a zero sign for J6, the library's convention".into(),
        ],
        components: json!({
            "real": ["/repo/src/parameters.rs (to_yaml)", "/repo/src/parameters_from_file.rs (from_yaml_file)", "yaml-rust2", "the file system (scratch directory under /verif/sim/target/scratch)"],
            "stub_contract_model": [],
            "simulator": ["disk model (content + fault) materialised per read; no scheduler involved: the loader is single-threaded"],
        }),
        exhaustive: false,
    };
    report::finish(meta, tally, wall, &|v| replay_all(&v["case"]), &|shard, run| case_json(tier_name, seed, shard, run))
}
