//! Workload generation shared by the checks: robot cells, safety tables, postures.

use crate::cell::*;
use crate::oracle;
use nalgebra::Isometry3;
use parry3d::bounding_volume::Aabb;
use simctx::Rng;
use std::f64::consts::PI;

/// A few 6-DOF geometries (a1, a2, b, c1, c2, c3, c4, offsets, signs) in the style of the
/// bundled parameter sets; scaled and jittered per cell.
fn base_geometries() -> Vec<([f64; 7], [f64; 6], [i8; 6])> {
    vec![
        ([0.100, -0.135, 0.0, 0.615, 0.705, 0.755, 0.085], [0.0, 0.0, -PI / 2.0, 0.0, 0.0, 0.0], [1; 6]),
        ([0.150, 0.0, 0.0, 0.550, 0.825, 0.625, 0.110], [0.0; 6], [1; 6]),
        ([0.149, -0.119, 0.0, 0.1, 0.2384, 0.17, 0.1208], [0.0; 6], [-1, 1, 1, 1, 1, 1]),
        ([0.025, -0.035, 0.0, 0.400, 0.455, 0.420, 0.080], [0.0, 0.0, 0.0, 0.0, 0.0, PI], [1, 1, -1, -1, -1, -1]),
        ([0.075, 0.04, 0.02, 0.335, 0.270, 0.295, 0.08], [0.0; 6], [1; 6]),
        // the documented FANUC style: an offset AND a reversed direction on the same joint
        ([0.15, -0.10, 0.0, 0.525, 0.77, 0.74, 0.10], [0.0, 0.0, -PI / 2.0, 0.0, 0.0, PI], [1, 1, -1, -1, -1, -1]),
    ]
}

pub struct CellKnobs {
    pub tool_p: f64,
    pub base_p: f64,
    pub max_env: usize,
    pub max_sub: u8,
    pub limits: LimitKind,
    pub ctor: Ctor,
    /// restrict safety table to touch-only (needed by `KinematicsWithShape::new`)
    pub touch_only: bool,
    /// sparse cell: small safety distances, few and distant obstacles (many free postures)
    pub sparse: bool,
}

#[derive(Clone, Copy, PartialEq, Eq)]
pub enum LimitKind {
    None,
    /// wide non-wrapping limits, from != to
    Wide,
    /// narrower, still non-wrapping
    Narrow,
    /// some joints wrap around (from > to)
    Wrapping,
}

fn jitter(w: &mut Rng, x: f32, rel: f32) -> f32 {
    x * (1.0 + rel * (2.0 * w.unit() as f32 - 1.0))
}

pub fn gen_limits(w: &mut Rng, kind: LimitKind) -> Option<([f64; 6], [f64; 6])> {
    match kind {
        LimitKind::None => None,
        LimitKind::Wide => {
            let mut f = [0.0; 6];
            let mut t = [0.0; 6];
            for i in 0..6 {
                // multi-turn joints (wrists of real robots): +-900 degrees now and then
                let half = if w.chance(0.15) { 900.0f64 } else { w.range_f64(160.0, 225.0f64) }.to_radians();
                f[i] = -half;
                t[i] = half;
            }
            Some((f, t))
        }
        LimitKind::Narrow => {
            let mut f = [0.0; 6];
            let mut t = [0.0; 6];
            for i in 0..6 {
                // centres far from zero give ordinary (non-wrapping) ranges that reach well past
                // +-180 degrees on one side only, e.g. 0..270 or -300..-20
                let c = if w.chance(0.3) { w.range_f64(-170.0, 170.0f64) } else { w.range_f64(-60.0, 60.0f64) }.to_radians();
                let half = w.range_f64(40.0, 150.0f64).to_radians();
                f[i] = (c - half).max(-2.0 * PI);
                t[i] = (c + half).min(2.0 * PI);
            }
            Some((f, t))
        }
        LimitKind::Wrapping => {
            let mut f = [0.0; 6];
            let mut t = [0.0; 6];
            for i in 0..6 {
                if w.chance(0.5) {
                    // wrap-around arc (from > to) of width 90..300 degrees: the arc runs from
                    // `start` in the positive direction to `start + width`
                    let start = w.range_f64(-PI, PI);
                    let width = w.range_f64(90.0, 300.0f64).to_radians();
                    f[i] = start;
                    t[i] = start + width - 2.0 * PI;
                    // the same arc written with `to` one more turn down (from - to > 2 pi), where
                    // that still fits into [-2 pi, 2 pi]
                    if w.chance(0.3) && t[i] - 2.0 * PI >= -2.0 * PI && f[i] > 0.0 {
                        t[i] -= 2.0 * PI;
                    }
                } else {
                    let c = w.range_f64(-60.0, 60.0f64).to_radians();
                    let half = w.range_f64(60.0, 170.0f64).to_radians();
                    f[i] = c - half;
                    t[i] = c + half;
                }
            }
            Some((f, t))
        }
    }
}

/// The same table with the same keys and other values: exemptions lifted (NEVER_COLLIDES -> a real
/// distance), pairs exempted, distances scaled. What a cache of "the pairs to check" that is
/// revalidated by shape (entry count, body count) cannot see.
pub fn retune_safety(w: &mut Rng, t: &SafetySpec) -> SafetySpec {
    let mut t2 = t.clone();
    let mut changed = false;
    for e in t2.special.iter_mut() {
        if e.2 <= NEVER {
            if w.chance(0.7) {
                e.2 = *w.pick(&[0.0f32, 0.005, 0.02, 0.06]);
                changed = true;
            }
        } else if w.chance(0.3) {
            e.2 = NEVER;
            changed = true;
        } else if w.chance(0.5) {
            e.2 = if e.2 == 0.0 { 0.03 } else { e.2 * *w.pick(&[0.25f32, 0.5, 2.0, 4.0]) };
            changed = true;
        }
    }
    if !changed || w.chance(0.3) {
        if t2.to_env > NEVER {
            t2.to_env = if t2.to_env == 0.0 { 0.02 } else { t2.to_env * *w.pick(&[0.25f32, 3.0]) };
        } else {
            t2.to_env = 0.01;
        }
    }
    t2
}

pub fn gen_safety(w: &mut Rng, has_tool: bool, has_base: bool, n_env: usize, touch_only: bool, sparse: bool) -> SafetySpec {
    let mode = match w.below(10) {
        0 => Mode::NoCheck,
        1..=4 => Mode::First,
        _ => Mode::All,
    };
    if touch_only {
        return SafetySpec::touch(if mode == Mode::NoCheck { Mode::All } else { mode });
    }
    let dist = |w: &mut Rng| -> f32 {
        if w.chance(0.16) {
            // extremes: micrometre clearances (several between a micrometre and a tenth of a
            // millimetre), negative zero as "touch only", metres
            return *w.pick(&[1e-6f32, 2e-5, 3e-5, 5e-5, 8e-5, 1e-4, 5e-4, 9e-4, -0.0, -0.0, 2.0, 10.0]);
        }
        match w.below(6) {
            0 | 1 => 0.0,
            2 => 0.005,
            3 => w.range_f64(0.01, 0.05) as f32,
            4 => w.range_f64(0.05, 0.15) as f32,
            _ => w.range_f64(0.15, 0.35) as f32,
        }
    };
    let mut to_env = dist(w);
    let mut to_robot = dist(w).min(0.06) * if w.chance(0.5) { 0.5 } else { 1.0 };
    if sparse {
        to_env = to_env.min(0.02);
        to_robot = to_robot.min(0.008);
    }
    // "nothing collides unless listed": the default itself is NEVER_COLLIDES and individual pairs
    // are re-enabled through the table
    let never_robot = w.chance(0.08);
    let never_env = w.chance(0.05);
    if never_robot {
        to_robot = NEVER;
    }
    if never_env {
        to_env = NEVER;
    }
    let mut ids: Vec<usize> = (0..6).collect();
    if has_tool {
        ids.push(J_TOOL);
    }
    if has_base {
        ids.push(J_BASE);
    }
    for k in 0..n_env {
        ids.push(ENV0 + k);
    }
    let mut special: Vec<(u16, u16, f32)> = Vec::new();
    // (decided below) with a NEVER default there should be entries that re-enable pairs
    let n_special = if never_robot || never_env {
        w.range_usize(3, 9)
    } else {
        match w.below(4) {
            0 => 0,
            1 => w.range_usize(1, 2),
            _ => w.range_usize(2, 7),
        }
    };
    for _ in 0..n_special {
        let a = *w.pick(&ids);
        let b = *w.pick(&ids);
        if a == b {
            continue;
        }
        if special.iter().any(|&(x, y, _)| (x as usize == a && y as usize == b) || (x as usize == b && y as usize == a)) {
            continue;
        }
        let d = match w.below(10) {
            0..=3 if !(never_robot || never_env) => NEVER,
            4 => 0.0,
            _ => dist(w),
        };
        special.push((a as u16, b as u16, d));
    }
    // large scenes: some (link / tool, environment body) pairs get a clearance far larger than
    // the general one
    if n_env > 6 {
        for _ in 0..w.range_usize(2, 5) {
            let a = if has_tool && w.chance(0.3) { J_TOOL } else { w.below(6) };
            let b = ENV0 + w.below(n_env);
            if special.iter().any(|&(x, y, _)| (x as usize == a && y as usize == b) || (x as usize == b && y as usize == a)) {
                continue;
            }
            let d = *w.pick(&[0.5f32, 1.0, 2.0, 3.0]);
            if w.chance(0.5) {
                special.push((a as u16, b as u16, d));
            } else {
                special.push((b as u16, a as u16, d));
            }
        }
    }
    SafetySpec { to_env, to_robot, special, mode }
}

pub fn gen_posture(w: &mut Rng, limits: &Option<([f64; 6], [f64; 6])>) -> [f64; 6] {
    let mut q = [0.0; 6];
    for i in 0..6 {
        q[i] = match limits {
            Some((f, t)) if f[i] < t[i] => w.range_f64(f[i], t[i]),
            _ => w.range_f64(-PI, PI),
        };
    }
    // folded postures make self-collisions frequent
    if w.chance(0.3) {
        q[1] = w.range_f64(0.8, 2.6) * if w.chance(0.5) { 1.0 } else { -1.0 };
        q[2] = w.range_f64(0.8, 2.8) * if w.chance(0.5) { 1.0 } else { -1.0 };
    }
    // special values now and then: exact multiples of pi, values several turns away, negative
    // zero, a subnormal
    if w.chance(0.12) {
        let j = w.below(6);
        q[j] = *w.pick(&[PI, -PI, 2.0 * PI, -2.0 * PI, 0.5 * PI, -0.5 * PI, 13.5, -13.5, -0.0, 0.0, 1e-300, 4.0 * PI]);
    }
    // numerically inside non-wrapping limits, not just modulo a full turn (an angle like -2.7 is
    // "compliant" with limits [-1.56, 3.62] because -2.7 + 2 pi is inside, but joint-space
    // interpolation from there leaves the arc: planners are only given plain in-range values)
    if let Some((f, t)) = limits {
        for i in 0..6 {
            if f[i] < t[i] && !(q[i] >= f[i] && q[i] <= t[i]) {
                q[i] = w.range_f64(f[i], t[i]);
            }
        }
    }
    q
}

fn world_aabb(mesh: &parry3d::shape::TriMesh, pose: &Isometry3<f32>) -> Aabb {
    use parry3d::shape::Shape;
    mesh.compute_aabb(pose)
}

/// A robot cell without environment.
pub fn gen_robot(w: &mut Rng, k: &CellKnobs) -> CellSpec {
    let geos = base_geometries();
    let (mut p, offsets, signs) = geos[w.below(geos.len())].clone();
    let (mut offsets, mut signs) = (offsets, signs);
    if w.chance(0.2) {
        // arbitrary calibration offsets and joint directions
        for j in 0..6 {
            if w.chance(0.5) {
                offsets[j] = w.range_f64(-PI, PI);
            }
            signs[j] = if w.chance(0.5) { 1 } else { -1 };
        }
    }
    let scale = w.range_f64(0.7, 1.3);
    for x in p.iter_mut() {
        *x *= scale * w.range_f64(0.9, 1.1);
    }
    let r = (w.range_f64(0.03, 0.08) * scale) as f32;
    let (c1, c2, c3, c4, a2) = (p[3] as f32, p[4] as f32, p[5] as f32, p[6] as f32, p[1] as f32);
    let mut sub = |w: &mut Rng| -> u8 {
        match w.below(6) {
            0..=2 => 1,
            3 => 2,
            4 => 3,
            _ => k.max_sub.max(1),
        }
        .min(k.max_sub.max(1))
    };
    let mut links = vec![
        MeshSpec::cube([1.5 * r, 1.5 * r, c1 * 0.33], [0.0, 0.0, -c1 * 0.6], sub(w)),
        MeshSpec::cube([r, r, c2 * 0.30], [0.0, 0.0, c2 * 0.48], sub(w)),
        MeshSpec::cube([a2.abs() * 0.5 + 0.8 * r, 0.8 * r, 0.8 * r], [a2 * 0.5, 0.0, 0.0], sub(w)),
        MeshSpec::cube([0.7 * r, 0.7 * r, c3 * 0.27], [0.0, 0.0, c3 * 0.57], sub(w)),
        MeshSpec::cube([0.6 * r, 0.6 * r, (c4 * 0.3).max(0.015)], [0.0, 0.0, c4 * 0.45], sub(w)),
        MeshSpec::cube([0.5 * r, 0.5 * r, 0.012], [0.0, 0.0, 0.0], sub(w)),
    ];
    for m in links.iter_mut() {
        for a in 0..3 {
            m.half[a] = jitter(w, m.half[a], 0.2).max(0.005);
        }
    }
    let need_both = k.ctor != Ctor::Direct;
    let has_tool = need_both || w.chance(k.tool_p);
    let has_base = need_both || w.chance(k.base_p);
    let (tool, tool_tf) = if has_tool {
        let len = w.range_f64(0.04, 0.35) as f32;
        let hw = w.range_f64(0.01, 0.05) as f32;
        let mesh = MeshSpec::cube([hw, jitter(w, hw, 0.3), len * 0.5], [0.0, 0.0, len * 0.5 + 0.016], sub(w));
        let rpy = if w.chance(0.3) { [w.range_f64(-0.4, 0.4), w.range_f64(-0.4, 0.4), w.range_f64(-PI, PI)] } else { [0.0; 3] };
        (Some(mesh), Some(PoseSpec { t: [0.0, 0.0, len as f64 + 0.016], rpy }))
    } else {
        (None, if w.chance(0.3) { Some(PoseSpec { t: [0.0, 0.0, 0.1], rpy: [0.0; 3] }) } else { None })
    };
    let (base, base_tf) = if has_base {
        let h = w.range_f64(0.05, 0.5) as f32;
        let hw = w.range_f64(0.12, 0.45) as f32;
        let mesh = MeshSpec::cube([hw, jitter(w, hw, 0.3), h * 0.5], [0.0, 0.0, -h * 0.5 - 0.002], sub(w));
        let rpy = match w.below(4) {
            0 => [0.0; 3],
            1 => [0.0, 0.0, w.range_f64(-PI, PI)],
            2 => [w.range_f64(-0.5, 0.5), w.range_f64(-0.5, 0.5), w.range_f64(-PI, PI)],
            _ => [PI, 0.0, 0.0], // ceiling mounted
        };
        let t = [w.range_f64(-0.6, 0.6), w.range_f64(-0.6, 0.6), w.range_f64(0.0, 0.8)];
        (Some(mesh), Some(PoseSpec { t, rpy }))
    } else {
        (None, if w.chance(0.3) { Some(PoseSpec { t: [0.2, -0.1, 0.3], rpy: [0.0, 0.0, 0.5] }) } else { None })
    };
    let limits = gen_limits(w, k.limits);
    CellSpec {
        params: p,
        offsets,
        signs,
        limits,
        sorting_weight: *w.pick(&[0.0, 0.0, 1.0, 0.5]),
        links,
        tool,
        base,
        base_tf,
        tool_tf,
        env: vec![],
        safety: SafetySpec::touch(Mode::All),
        ctor: k.ctor,
        limits_ctor: *w.pick(&[0u8, 0, 0, 1, 2, 3]),
        parallelogram: None,
        clone_safety: false,
    }
}

#[derive(Clone, Copy, Debug, PartialEq, Eq)]
pub enum Relation {
    Free,
    Penetrating,
    Grazing,
    Enclosed,
}

/// Add environment bodies placed relative to where the robot's bodies are at `anchor`.
/// Returns the relation used for each body (reach statistics).
pub fn add_environment(w: &mut Rng, cell: &mut CellSpec, anchor: &[f64; 6], k: &CellKnobs) -> Vec<Relation> {
    let big = if w.chance(0.5) { 20 } else { 6 };
    // crowded scenes: half of them with 17-20 bodies (more than any fixed-size shortcut of 16)
    let n_env = if k.max_env > 6 { if big == 20 { w.range_usize(17, 20) } else { w.range_usize(6, k.max_env) } } else { w.below(if k.sparse { k.max_env.min(2) } else { k.max_env } + 1) };
    let mut rels = Vec::new();
    if n_env == 0 {
        return rels;
    }
    let oc = OracleCell::new(cell);
    let poses = oracle::link_poses(&oc, anchor);
    for _ in 0..n_env {
        // target body: a link or the tool
        let mut targets: Vec<usize> = (0..6).collect();
        if cell.tool.is_some() {
            targets.push(J_TOOL);
            targets.push(J_TOOL);
        }
        targets.push(5);
        targets.push(4);
        let tgt = *w.pick(&targets);
        let (tmesh, tpose, tspec) = if tgt == J_TOOL {
            (oc.tool.as_ref().unwrap(), poses[5], cell.tool.as_ref().unwrap())
        } else {
            (&oc.links[tgt], poses[tgt], &cell.links[tgt])
        };
        let bb = world_aabb(tmesh, &tpose);
        let c = bb.center();
        let he = bb.half_extents();
        let rel = match if k.sparse { w.below(14) } else { w.below(20) } {
            0..=7 => Relation::Free,
            8..=10 => Relation::Penetrating,
            11..=15 => Relation::Grazing,
            _ => Relation::Enclosed,
        };
        let axis = w.below(3);
        let sign = if w.chance(0.5) { 1.0f32 } else { -1.0 };
        let idx = ENV0 + cell.env.len();
        let env = match rel {
            Relation::Free => {
                let half = [w.range_f64(0.05, 0.4) as f32, w.range_f64(0.05, 0.4) as f32, w.range_f64(0.05, 0.4) as f32];
                EnvSpec {
                    mesh: MeshSpec::cube(half, [0.0; 3], 1 + w.below(k.max_sub as usize) as u8),
                    pose: PoseSpec {
                        t: if k.sparse {
                            let a = w.range_f64(-PI, PI);
                            let d = w.range_f64(1.6, 3.0);
                            [d * a.cos(), d * a.sin(), w.range_f64(-0.5, 2.0)]
                        } else {
                            [w.range_f64(-2.5, 2.5), w.range_f64(-2.5, 2.5), w.range_f64(-0.5, 2.5)]
                        },
                        rpy: [w.range_f64(-PI, PI), w.range_f64(-1.0, 1.0), w.range_f64(-PI, PI)],
                    },
                }
            }
            Relation::Penetrating => {
                let half = [w.range_f64(0.02, 0.2) as f32, w.range_f64(0.02, 0.2) as f32, w.range_f64(0.02, 0.2) as f32];
                EnvSpec {
                    mesh: MeshSpec::cube(half, [0.0; 3], 1 + w.below(k.max_sub as usize) as u8),
                    pose: PoseSpec {
                        t: [
                            c.x as f64 + w.range_f64(-0.5, 0.5) * he.x as f64,
                            c.y as f64 + w.range_f64(-0.5, 0.5) * he.y as f64,
                            c.z as f64 + w.range_f64(-0.5, 0.5) * he.z as f64,
                        ],
                        rpy: [w.range_f64(-0.5, 0.5), w.range_f64(-0.5, 0.5), w.range_f64(-PI, PI)],
                    },
                }
            }
            Relation::Grazing => {
                // a plate slid along `axis` until its distance to the target is r + delta
                let r = cell.safety.distance(tgt, idx).max(0.0);
                // the gap differs from the safety distance by millimetres, or, for tiny safety
                // distances, by a fraction of the distance itself
                let delta = if r > 0.0 && r < 2e-3 {
                    r * (w.range_f64(0.15, 0.8) * if w.chance(0.5) { 1.0 } else { -1.0 }) as f32
                } else {
                    (w.range_f64(0.0005, 0.01) * if w.chance(0.5) { 1.0 } else { -1.0 }) as f32
                };
                // touch-only pairs: now and then almost touching (tens of micrometres apart), where
                // "intersects" and "closer than some epsilon" part company
                let want = if r == 0.0 && w.chance(0.3) {
                    w.range_f64(3e-5, 9e-5) as f32
                } else if r > 0.0 && r < 2e-3 {
                    r + delta
                } else {
                    (r + delta).max(0.0003)
                };
                let mut half = [w.range_f64(0.1, 0.5) as f32; 3];
                half[axis] = w.range_f64(0.005, 0.03) as f32;
                let mesh = MeshSpec::cube(half, [0.0; 3], 1 + w.below(k.max_sub as usize) as u8);
                let built = mesh.build();
                let rpy = if w.chance(0.5) { [0.0; 3] } else { [w.range_f64(-0.2, 0.2), w.range_f64(-0.2, 0.2), w.range_f64(-PI, PI)] };
                let at = |s: f32| -> PoseSpec {
                    let mut t = [c.x as f64, c.y as f64, c.z as f64];
                    t[axis] += (sign * s) as f64;
                    PoseSpec { t, rpy }
                };
                let (mut lo, mut hi) = (0.0f32, he[axis] + half[axis] + want + 1.0);
                for _ in 0..26 {
                    let mid = 0.5 * (lo + hi);
                    let d = parry3d::query::distance(&tpose, tmesh, &at(mid).iso32(), &built).unwrap_or(0.0);
                    if d < want {
                        lo = mid;
                    } else {
                        hi = mid;
                    }
                }
                EnvSpec { mesh, pose: at(hi) }
            }
            Relation::Enclosed => {
                // a few-vertex plate under a many-vertex small body: the body lies wholly inside
                // the plate's box loosened by the safety distance, without touching the plate
                let gap = w.range_f64(0.004, 0.03) as f32;
                let need = 2.0 * he[axis] + gap + 0.01;
                let mut half = [he.x + need + 0.15, he.y + need + 0.15, he.z + need + 0.15];
                half[axis] = 0.01;
                let mesh = MeshSpec::cube(half, [0.0; 3], 1);
                let mut t = [c.x as f64, c.y as f64, c.z as f64];
                t[axis] += (sign * (he[axis] + gap + 0.01)) as f64;
                // make sure the safety distance of this pair covers the whole body
                let cur = cell.safety.distance(tgt, idx);
                if cur > NEVER && cur < need && !cell.safety.special.iter().any(|s| (s.0 as usize == tgt && s.1 as usize == idx) || (s.1 as usize == tgt && s.0 as usize == idx)) {
                    if w.chance(0.5) {
                        cell.safety.special.push((tgt as u16, idx as u16, need + 0.01));
                    } else {
                        cell.safety.special.push((idx as u16, tgt as u16, need + 0.01));
                    }
                }
                let _ = tspec;
                EnvSpec { mesh, pose: PoseSpec { t, rpy: [0.0; 3] } }
            }
        };
        cell.env.push(env);
        rels.push(rel);
        // now and then the same body twice (identical mesh, identical pose)
        if w.chance(0.06) {
            let dup = cell.env[cell.env.len() - 1].clone();
            cell.env.push(dup);
            rels.push(rel);
        }
    }
    rels
}
