//! opwsim — deterministic simulation with fault injection for rs-opw-kinematics.
//!
//!   opwsim <C10|C11|C12|C13|C14|C18|C19> <quick|thorough|smoke>
//!   opwsim replay <file>
//!   opwsim selftest
//!
//! Exit codes: 0 property held on everything explored, 1 violation, 2 harness error.

mod c10;
mod c11;
mod c12;
mod c13;
mod c14;
mod c18;
mod c19;
mod cell;
mod gen;
mod gen_stl;
mod minimise;
mod oracle;
mod probe;
mod report;
mod selftest;
mod sim;
mod validate_rayon;

use serde_json::Value;

fn replay_dispatch(check: &str, v: &Value) -> Vec<(String, String)> {
    match check {
        "C10" => c10::replay_all(&v["case"]),
        "C11" => c11::replay_all(&v["case"]),
        "C12" => c12::replay_all(&v["case"]),
        "C13" => c13::replay_all(&v["case"]),
        "C14" => c14::replay_all(&v["case"]),
        "C18" => c18::replay_all(&v["case"]),
        "C19" => c19::replay_all(&v["case"]),
        _ => vec![("harness:unknown-check".into(), check.to_string())],
    }
}

/// Judge one case description ({"check": .., "case": .., optional "history": [..]}): the history
/// cases are executed first, in order, in this same process; the clauses of the case itself are
/// returned.
fn judge_with_history(v: &Value) -> Vec<(String, String)> {
    if let Some(h) = v["history"].as_array() {
        for prior in h {
            let check = prior["check"].as_str().unwrap_or("?").to_string();
            let _ = replay_dispatch(&check, prior);
        }
    }
    let check = v["check"].as_str().unwrap_or("?").to_string();
    replay_dispatch(&check, v)
}

fn main() {
    sim::install_panic_hook();
    let args: Vec<String> = std::env::args().skip(1).collect();
    let seed = report::verif_seed();
    let code = match args.first().map(|s| s.as_str()) {
        Some("replay") => {
            let path = args.get(1).expect("replay <file>");
            let text = std::fs::read_to_string(path).unwrap_or_else(|e| {
                report::say(&format!("HARNESS-ERROR: cannot read {path}: {e}"));
                std::process::exit(2)
            });
            let v: Value = serde_json::from_str(&text).unwrap_or_else(|e| {
                report::say(&format!("HARNESS-ERROR: cannot parse {path}: {e}"));
                std::process::exit(2)
            });
            let check = v["case"]["check"].as_str().unwrap_or("?").to_string();
            let want = v["clause"].as_str().unwrap_or("").to_string();
            // always in a fresh process (no state of this one involved), with a wall-clock limit
            let got = report::judge_in_fresh_process(&serde_json::json!({"cases": [v["case"].clone()]}));
            let property = v["property"].as_str().unwrap_or(&check).to_string();
            match got.iter().find(|(c, _)| *c == want) {
                Some((c, d)) => {
                    report::say(&format!("REPLAY reproduced clause={c} :: {d}"));
                    report::say(&format!("VIOLATION property={property} replay={path}"));
                    1
                }
                None if got.iter().any(|(c, _)| c.starts_with("harness:")) => {
                    report::say(&format!("HARNESS-ERROR: {:?}", got));
                    2
                }
                None => {
                    report::say(&format!("REPLAY did not reproduce clause={want}; clauses failing now: {:?}", got.iter().map(|g| &g.0).collect::<Vec<_>>()));
                    0
                }
            }
        }
        Some("__judge") => {
            // internal: judge a list of cases in order in this (fresh) process; write the clauses of the last
            let text = std::fs::read_to_string(&args[1]).expect("judge input");
            let v: Value = serde_json::from_str(&text).expect("judge input json");
            let mut last: Vec<(String, String)> = Vec::new();
            for c in v["cases"].as_array().cloned().unwrap_or_default() {
                last = judge_with_history(&c);
            }
            std::fs::write(&args[2], serde_json::to_string(&last).unwrap()).expect("judge output");
            0
        }
        Some("validate-rayon") => validate_rayon::run(seed),
        Some("selftest") => selftest::run(seed, args.get(1).and_then(|s| s.parse().ok()).unwrap_or(40)),
        Some("digest") => selftest::digest_main(seed, args.get(1).and_then(|s| s.parse().ok()).unwrap_or(40)),
        Some("C10") => c10::run(args.get(1).map(|s| s.as_str()).unwrap_or("quick"), seed),
        Some("C11") => c11::run(args.get(1).map(|s| s.as_str()).unwrap_or("quick"), seed),
        Some("C19") => c19::run(args.get(1).map(|s| s.as_str()).unwrap_or("quick"), seed),
        Some("C18") => c18::run(args.get(1).map(|s| s.as_str()).unwrap_or("quick"), seed),
        Some("C12") => c12::run(args.get(1).map(|s| s.as_str()).unwrap_or("quick"), seed),
        Some("C13") => c13::run(args.get(1).map(|s| s.as_str()).unwrap_or("quick"), seed),
        Some("C14") => c14::run(args.get(1).map(|s| s.as_str()).unwrap_or("quick"), seed),
        _ => {
            eprintln!("usage: opwsim <C10..C19> <quick|thorough> | replay <file> | selftest");
            2
        }
    };
    std::process::exit(code);
}
