//! The bundled Staubli RX160 meshes (thorough tier): real link shapes with thousands of
//! triangles and very different vertex counts.

use crate::cell::*;

const DIR: &str = "/repo/src/tests/data/staubli/rx160";

fn stl(name: &str) -> MeshSpec {
    MeshSpec { half: [0.0; 3], center: [0.0; 3], sub: 1, stl: Some(format!("{DIR}/{name}.stl")) }
}

/// Replace the cell's robot by the RX160 (geometry parameters as in the repository's examples).
pub fn use_rx160(cell: &mut CellSpec) {
    cell.params = [0.15, 0.0, 0.0, 0.55, 0.825, 0.625, 0.11];
    cell.offsets = [0.0; 6];
    cell.signs = [1; 6];
    cell.links = (1..=6).map(|i| stl(&format!("link_{i}"))).collect();
    if cell.base.is_some() {
        cell.base = Some(stl("base_link"));
    }
}
