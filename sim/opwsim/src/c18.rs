//! C18 — every vector produced by `Constraints::random_angles` satisfies the same constraints,
//! for every outcome of the thread-local generator, including the legal extremes and the
//! outcomes either side of the sampler's own breakpoints.
//!
//! The seam is the `rand` crate boundary (sim-rand): the harness dictates each draw.

use crate::oracle::{self, Tri};
use crate::report::{self, CheckMeta, Tally, Violation};
use crate::sim::{self, Out, RngSpec, SimCfg};
use rs_opw_kinematics::constraints::Constraints;
use serde::{Deserialize, Serialize};
use serde_json::{json, Value};
use simctx::{Ctx, Outcome, Rng, RngPlan};
use std::f64::consts::PI;

#[derive(Clone, Debug, Serialize, Deserialize)]
pub struct Case {
    pub from: [f64; 6],
    pub to: [f64; 6],
    /// outcomes of the six draws of one call (joint 1..6 in order); several calls = several rows
    pub draws: Vec<Vec<Out>>,
    /// > 1: the calls are made from that many concurrent simulated tasks (row i by task i % tasks)
    #[serde(default)]
    pub tasks: usize,
    #[serde(default)]
    pub cfg: Option<SimCfg>,
    /// how the Constraints object is built: 0 = Constraints::new, 1 = Constraints::from_degrees,
    /// 2 = built with other limits and then update_range(from, to), 3 = public from/to edited then
    /// update_range(c.from, c.to), 4 = new() and then the public tolerances widened by 0.02 rad
    #[serde(default)]
    pub ctor: u8,
    /// history: another constraint set that is sampled once, on the same thread, immediately
    /// before every observed call
    #[serde(default)]
    pub prelude: Option<([f64; 6], [f64; 6])>,
    /// history: calls of the sampler on this very set that were made while the scenario was being
    /// generated (locating the discontinuities of the sampler by bisection calls it). A replay in
    /// a fresh process repeats that many calls (uniform draws) before the observed ones, so that
    /// state the sampler keeps from call to call has seen the same number of calls.
    #[serde(default)]
    pub gen_calls: u64,
    /// concurrent calls are made by the workers of a (modelled) rayon pool, inside a parallel
    /// iterator, instead of by plain threads: what a planner running inside a user's pool does
    #[serde(default)]
    pub via_pool: bool,
    /// history entries only: instead of explicit rows, re-run scenario (tier, seed, shard, run)
    /// exactly as the shard did (generation, which itself calls the sampler, then every row)
    #[serde(default)]
    pub regen: Option<(String, u64, usize, usize)>,
}

/// Build the constraints the way the case says. The oracle then reads the limits back from the
/// object's public `from` / `to` fields (from_degrees converts degrees -> radians itself).
pub fn build(case: &Case) -> Constraints {
    match case.ctor {
        1 => {
            let r: [std::ops::RangeInclusive<f64>; 6] = std::array::from_fn(|j| case.from[j].to_degrees()..=case.to[j].to_degrees());
            Constraints::from_degrees(r, 0.0)
        }
        2 => {
            let mut c = Constraints::new([-0.5; 6], [2.5, -1.0, 0.7, 3.0, -2.0, 0.1], 1.0);
            c.update_range(case.from, case.to);
            c
        }
        3 => {
            // the caller edits the public limits of an existing object and refreshes it with
            // update_range(c.from, c.to)
            let mut c = Constraints::new([-0.5; 6], [2.5, -1.0, 0.7, 3.0, -2.0, 0.1], 1.0);
            c.from = case.from;
            c.to = case.to;
            let (f, t) = (c.from, c.to);
            c.update_range(f, t);
            c
        }
        5 | 6 | 7 => {
            // the object a solver hands out through Kinematics::constraints() (what the RRT
            // planner samples from), for the three kinds of sorting weight
            use rs_opw_kinematics::kinematic_traits::Kinematics;
            let weight = [0.0, 1.0, 0.5][(case.ctor - 5) as usize];
            let c = Constraints::new(case.from, case.to, weight);
            let params = rs_opw_kinematics::parameters::opw_kinematics::Parameters {
                a1: 0.15, a2: -0.1, b: 0.0, c1: 0.5, c2: 0.7, c3: 0.7, c4: 0.1,
                offsets: [0.0, 0.0, -1.0, 0.0, 0.0, 0.5],
                sign_corrections: [1, -1, 1, -1, 1, -1],
                dof: 6,
            };
            let solver = rs_opw_kinematics::kinematics_impl::OPWKinematics::new_with_constraints(params, c);
            solver.constraints().expect("solver built with constraints")
        }
        8 | 9 => {
            // limits extracted from a URDF description: the constraints object a robot built by
            // URDFParameters::to_robot (with calibration offsets) hands out, or the one returned
            // by URDFParameters::constraints
            use rs_opw_kinematics::kinematic_traits::Kinematics;
            let u = rs_opw_kinematics::urdf::URDFParameters {
                a1: 0.15, a2: -0.1, b: 0.0, c1: 0.5, c2: 0.7, c3: 0.7, c4: 0.1,
                sign_corrections: [1, -1, 1, -1, 1, -1],
                from: case.from,
                to: case.to,
                dof: 6,
            };
            if case.ctor == 8 {
                u.to_robot(1.0, &[0.3, -0.2, 1.0, 0.0, -2.5, 0.5]).constraints().expect("robot built with constraints")
            } else {
                u.constraints(0.5)
            }
        }
        4 => {
            // the caller widens the public tolerances a little (a soft margin for `compliant`);
            // the limits the sampler must respect are still from/to
            let mut c = Constraints::new(case.from, case.to, 0.0);
            for j in 0..6 {
                if c.tolerances[j].is_finite() {
                    c.tolerances[j] += 0.02;
                }
            }
            c
        }
        _ => Constraints::new(case.from, case.to, 0.0),
    }
}

#[derive(Clone, Debug)]
pub struct Fail {
    pub clause: String,
    pub signature: String,
    pub detail: String,
    pub row: usize,
}

const TWO_PI: f64 = 2.0 * PI;

/// Class of one (from, to) pair, for signatures and reach statistics.
pub fn class_of(from: f64, to: f64) -> &'static str {
    if from < to {
        if to - from >= TWO_PI {
            "nonwrap-full-turn-or-more"
        } else {
            "nonwrap"
        }
    } else if to == 0.0 {
        "wrap-to-zero"
    } else if from > 0.0 && to > 0.0 {
        "wrap-both-positive"
    } else if from < 0.0 && to < 0.0 {
        "wrap-both-negative"
    } else if from > 0.0 && to < 0.0 {
        "wrap-straddling-zero"
    } else {
        "wrap-other"
    }
}

/// `from > to` with `from - to` a whole number of turns: zero-width arc (or `from == to`), out of
/// the property's "positive width" domain.
pub fn degenerate(from: f64, to: f64) -> bool {
    if from < to {
        return false;
    }
    if from == to {
        return true;
    }
    // from > to: the arc runs from `from` up to `to` on the next turn. Its width is zero only when
    // from - to is a whole number (>= 1) of turns; from - to -> 0+ is an arc of ALMOST a full turn
    let turns = (from - to) / TWO_PI;
    turns.round() >= 1.0 && (turns - turns.round()).abs() < 1e-9
}

/// One call of the real sampler with dictated outcomes (no scheduler involved).
fn call(c: &Constraints, row: &[Out]) -> Result<[f64; 6], String> {
    call_after(c, row, &None)
}

thread_local! {
    static CALLS: std::cell::Cell<u64> = const { std::cell::Cell::new(0) };
}

fn call_after(c: &Constraints, row: &[Out], prelude: &Option<([f64; 6], [f64; 6])>) -> Result<[f64; 6], String> {
    CALLS.with(|n| n.set(n.get() + 1));
    if let Some((pf, pt)) = prelude {
        let other = Constraints::new(*pf, *pt, 0.0);
        let mut ctx = Ctx::idle();
        ctx.rng = RngPlan::List { items: vec![Outcome::U(0.5); 6], pos: 0 };
        let old = simctx::install(ctx);
        let _ = sim::quiet_panics(|| std::panic::catch_unwind(|| other.random_angles()));
        let _ = simctx::install(old);
        let _ = sim::take_last_panic();
    }
    let mut ctx = Ctx::idle();
    ctx.rng = RngPlan::List { items: row.iter().map(|o| o.to_ctx()).collect(), pos: 0 };
    let old = simctx::install(ctx);
    let r = sim::quiet_panics(|| std::panic::catch_unwind(|| c.random_angles()));
    let _ = simctx::install(old);
    match r {
        Ok(v) => Ok(v),
        Err(_) => Err(sim::take_last_panic().unwrap_or_else(|| "panic".into())),
    }
}

fn judge_vector(case: &Case, c: &Constraints, row: usize, v: &[f64; 6], fails: &mut Vec<Fail>) {
    let mut all_yes = true;
    for j in 0..6 {
        if !v[j].is_finite() {
            fails.push(Fail {
                clause: "a:not-finite".into(),
                signature: format!("C18/not-finite/{}", class_of(case.from[j], case.to[j])),
                detail: format!("joint {} sampled {} for limits [{}, {}]", j + 1, v[j], case.from[j], case.to[j]),
                row,
            });
            all_yes = false;
            continue;
        }
        // the limits the object actually holds may have collapsed to from == to (or a zero-width
        // arc) on the way through a constructor that converts units: outside the property's domain
        if degenerate(case.from[j], case.to[j]) {
            all_yes = false;
            continue;
        }
        match oracle::on_arc(v[j], case.from[j], case.to[j], 1e-9) {
            Tri::Yes => {}
            Tri::DontCare => all_yes = false,
            Tri::No => {
                all_yes = false;
                fails.push(Fail {
                    clause: "a:outside-arc".into(),
                    signature: format!("C18/outside-arc/{}", class_of(case.from[j], case.to[j])),
                    detail: format!(
                        "joint {}: sampled {:.9} rad is outside the arc from {:.9} to {:.9} (draw {:?})",
                        j + 1,
                        v[j],
                        case.from[j],
                        case.to[j],
                        case.draws[row].get(j)
                    ),
                    row,
                });
            }
        }
    }
    if all_yes && !c.compliant(v) {
        fails.push(Fail {
            clause: "b:rejected-by-compliant".into(),
            signature: "C18/rejected-by-compliant".into(),
            detail: format!("sampled vector {v:?} lies well inside every arc but compliant() rejects it"),
            row,
        });
    } else if all_yes && c.filter(&vec![*v]).len() != 1 {
        // the list form of the same acceptance test
        fails.push(Fail {
            clause: "b:rejected-by-filter".into(),
            signature: "C18/rejected-by-filter".into(),
            detail: format!("sampled vector {v:?} lies well inside every arc and compliant() accepts it, but filter() drops it"),
            row,
        });
    }
}

pub fn judge(case: &Case) -> Vec<Fail> {
    judge_with(case, false)
}

pub fn judge_with(case: &Case, repeat_gen_calls: bool) -> Vec<Fail> {
    let c = build(case);
    if repeat_gen_calls {
        for _ in 0..case.gen_calls {
            let _ = call(&c, &[Out::U(0.5); 6]);
        }
    }
    // the limits the object itself holds are the ones its samples must satisfy
    let mut eff = case.clone();
    eff.from = c.from;
    eff.to = c.to;
    let case = &eff;
    let mut fails = Vec::new();
    if case.tasks > 1 {
        // concurrent samplers on simulated tasks sharing the outcome stream
        let cfg = case.cfg.clone().unwrap_or_else(SimCfg::sequential);
        let mut cfg = cfg;
        let flat: Vec<Out> = case.draws.iter().flatten().copied().collect();
        cfg.rng = RngSpec::List(flat);
        let (tasks, rows) = (case.tasks, case.draws.len());
        let cc = c;
        let via_pool = case.via_pool;
        let out = sim::simulate(&cfg, move || {
            if via_pool {
                use sim_rayon::prelude::*;
                let vs: Vec<[f64; 6]> = (0..rows).into_par_iter().map(|_| cc.random_angles()).collect();
                return vs;
            }
            let results = std::sync::Arc::new(std::sync::Mutex::new(Vec::new()));
            let mut hs = Vec::new();
            for t in 0..tasks {
                let results = results.clone();
                let n = (rows + tasks - 1 - t) / tasks;
                hs.push(shuttle::thread::spawn(move || {
                    for _ in 0..n {
                        let v = cc.random_angles();
                        results.lock().unwrap().push(v);
                    }
                }));
            }
            for h in hs {
                h.join().unwrap();
            }
            let r = results.lock().unwrap().clone();
            r
        });
        match out.result {
            Ok(vs) => {
                for v in vs.iter() {
                    // rows are interleaved by the schedule: judge each vector on its own
                    let mut f2 = Vec::new();
                    judge_vector_noidx(case, &c, v, &mut f2);
                    fails.extend(f2);
                }
            }
            Err(a) => fails.push(Fail { clause: "c:panic".into(), signature: "C18/panic/concurrent".into(), detail: format!("{a:?}"), row: 0 }),
        }
        return fails;
    }
    for (row, draws) in case.draws.iter().enumerate() {
        match call_after(&c, draws, &case.prelude) {
            Ok(v) => judge_vector(case, &c, row, &v, &mut fails),
            Err(msg) => {
                let classes: Vec<&str> = (0..6).map(|j| class_of(case.from[j], case.to[j])).collect();
                fails.push(Fail {
                    clause: "c:panic".into(),
                    // the panic site is the structural part; the limit classes are in the detail
                    signature: format!("C18/panic/{}", msg.rsplit(" @ ").next().unwrap_or("").rsplit('/').next().unwrap_or("")),
                    detail: format!("random_angles panicked: {msg} (limits from {:?} to {:?}; classes {})", case.from, case.to, classes.join(",")),
                    row,
                })
            }
        }
    }
    fails
}

fn judge_vector_noidx(case: &Case, c: &Constraints, v: &[f64; 6], fails: &mut Vec<Fail>) {
    let mut all_yes = true;
    for j in 0..6 {
        if degenerate(case.from[j], case.to[j]) {
            all_yes = false;
            continue;
        }
        match if v[j].is_finite() { oracle::on_arc(v[j], case.from[j], case.to[j], 1e-9) } else { Tri::No } {
            Tri::Yes => {}
            Tri::DontCare => all_yes = false,
            Tri::No => {
                all_yes = false;
                fails.push(Fail {
                    clause: "a:outside-arc".into(),
                    signature: format!("C18/outside-arc/{}", class_of(case.from[j], case.to[j])),
                    detail: format!("joint {}: sampled {:.9} rad is outside the arc from {:.9} to {:.9} (concurrent samplers)", j + 1, v[j], case.from[j], case.to[j]),
                    row: 0,
                });
            }
        }
    }
    if all_yes && !c.compliant(v) {
        fails.push(Fail {
            clause: "b:rejected-by-compliant".into(),
            signature: "C18/rejected-by-compliant".into(),
            detail: format!("sampled vector {v:?} lies well inside every arc but compliant() rejects it"),
            row: 0,
        });
    } else if all_yes && c.filter(&vec![*v]).len() != 1 {
        fails.push(Fail {
            clause: "b:rejected-by-filter".into(),
            signature: "C18/rejected-by-filter".into(),
            detail: format!("sampled vector {v:?} lies well inside every arc and compliant() accepts it, but filter() drops it"),
            row: 0,
        });
    }
}

pub fn replay_all(case: &Value) -> Vec<(String, String)> {
    match serde_json::from_value::<Case>(case.clone()) {
        Ok(c) if c.regen.is_some() => {
            let (tier_name, seed, shard, run) = c.regen.clone().unwrap();
            let mut scratch = Tally::default();
            // what the regenerated scenario itself observed (a history entry's own failures are
            // ignored by the caller; as the LAST case of a replay they are the verdict)
            run_one(&tier_name, seed, shard, run, &tier(&tier_name), &mut scratch)
        }
        Ok(c) => judge_with(&c, true).into_iter().map(|f| (f.clause, f.detail)).collect(),
        Err(e) => vec![("harness:bad-case".into(), e.to_string())],
    }
}

fn lattice_or_real(w: &mut Rng) -> f64 {
    match w.below(3) {
        0 => (w.range_usize(0, 48) as f64 * 15.0 - 360.0).to_radians(),
        1 => (w.range_usize(0, 8) as f64 * 90.0 - 360.0).to_radians(),
        _ => w.range_f64(-TWO_PI, TWO_PI),
    }
}

/// One (from, to) pair per joint, covering the sign / order classes of the property.
pub fn gen_limits(w: &mut Rng) -> ([f64; 6], [f64; 6]) {
    let mut f = [0.0; 6];
    let mut t = [0.0; 6];
    for j in 0..6 {
        loop {
            let (a, b) = match w.below(8) {
                0 | 1 => {
                    // ordinary
                    let a = lattice_or_real(w);
                    let b = lattice_or_real(w);
                    (a.min(b), a.max(b))
                }
                2 => {
                    // wrap, both positive
                    let a = lattice_or_real(w).abs();
                    let b = lattice_or_real(w).abs();
                    (a.max(b), a.min(b))
                }
                3 => {
                    let a = -lattice_or_real(w).abs();
                    let b = -lattice_or_real(w).abs();
                    (a.max(b), a.min(b))
                }
                4 => (lattice_or_real(w).abs(), -lattice_or_real(w).abs()),
                5 => (lattice_or_real(w).abs(), 0.0),
                6 => {
                    // tiny arcs and arcs one step short of a full turn
                    let a = lattice_or_real(w);
                    let width = *w.pick(&[1e-6, 1e-3, TWO_PI - 1e-3, TWO_PI - 1e-6, 0.01, 1e-10, 1e-12, 3e-15, TWO_PI - 1e-12]);
                    if w.chance(0.5) {
                        (a, a + width)
                    } else {
                        (a, a + width - TWO_PI)
                    }
                }
                7 if w.chance(0.3) => {
                    // wrap-around limits a few floats apart (an arc of almost a full turn), and tiny
                    // or subnormal values next to zero
                    match w.below(4) {
                        0 => {
                            let b = lattice_or_real(w);
                            let mut a = b;
                            for _ in 0..w.range_usize(1, 4) {
                                a = f64::from_bits(if a >= 0.0 { a.to_bits() + 1 } else { a.to_bits() - 1 });
                            }
                            (a, b)
                        }
                        1 => (*w.pick(&[1e-300, 5e-324, 1e-17]), *w.pick(&[0.0, -0.0])),
                        2 => (0.0, -*w.pick(&[1e-300, 5e-324, 1e-17])),
                        _ => (lattice_or_real(w), lattice_or_real(w)),
                    }
                }
                _ => (lattice_or_real(w), lattice_or_real(w)),
            };
            if a == b || degenerate(a, b) || a.abs() > TWO_PI || b.abs() > TWO_PI {
                continue;
            }
            f[j] = a;
            t[j] = b;
            break;
        }
    }
    (f, t)
}

/// Outcome rows for one constraint set: uniform draws, the legal extremes, repeated draws, a
/// grid, and both sides of every discontinuity of the sampler found by bisection on `u`.
fn adversarial_rows(c: &Constraints, w: &mut Rng, uniform: usize, grid: usize, tally: &mut Tally) -> Vec<Vec<Out>> {
    let mut rows: Vec<Vec<Out>> = Vec::new();
    rows.push(vec![Out::Low; 6]);
    rows.push(vec![Out::HighMinus; 6]);
    rows.push(vec![Out::U(0.0); 6]);
    rows.push(vec![Out::U(1.0 - f64::EPSILON / 2.0); 6]);
    for _ in 0..uniform {
        rows.push((0..6).map(|_| Out::U(w.unit())).collect());
    }
    // repeated draw
    let u = w.unit();
    rows.push(vec![Out::U(u); 6]);
    rows.push(vec![Out::U(u); 6]);
    // grid, and discontinuity search per joint (all joints evaluated in one call)
    let mut prev: Option<(f64, [f64; 6])> = None;
    let mut jumps: Vec<(usize, f64, f64)> = Vec::new();
    for g in 0..=grid {
        let u = (g as f64 / grid as f64).min(1.0 - f64::EPSILON / 2.0);
        rows.push(vec![Out::U(u); 6]);
        if let Ok(v) = call(c, &vec![Out::U(u); 6]) {
            if let Some((pu, pv)) = prev {
                for j in 0..6 {
                    // slopes of continuous pieces are at most 4*pi per unit of u
                    if (v[j] - pv[j]).abs() > 4.0 * PI * (u - pu) * 1.5 + 1e-9 {
                        jumps.push((j, pu, u));
                    }
                }
            }
            prev = Some((u, v));
        }
    }
    for (j, mut lo, mut hi) in jumps {
        let val = |u: f64| call(c, &vec![Out::U(u); 6]).map(|v| v[j]).unwrap_or(f64::NAN);
        let vlo = val(lo);
        for _ in 0..60 {
            let mid = 0.5 * (lo + hi);
            if mid <= lo || mid >= hi {
                break;
            }
            if (val(mid) - vlo).abs() > 4.0 * PI * (mid - lo) * 1.5 + 1e-9 {
                hi = mid;
            } else {
                lo = mid;
            }
        }
        tally.bump("breakpoints_bisected", 1);
        for u in [lo, hi] {
            let mut row: Vec<Out> = (0..6).map(|_| Out::U(0.5)).collect();
            row[j] = Out::U(u);
            rows.push(row);
        }
    }
    rows
}

pub struct Tier {
    pub shards: usize,
    pub sets_per_shard: usize,
    pub uniform: usize,
    pub grid: usize,
    pub concurrent_every: usize,
}

pub fn tier(name: &str) -> Tier {
    match name {
        "thorough" => Tier { shards: 256, sets_per_shard: 400, uniform: 256, grid: 1024, concurrent_every: 10 },
        "smoke" => Tier { shards: 4, sets_per_shard: 20, uniform: 16, grid: 64, concurrent_every: 5 },
        _ => Tier { shards: 32, sets_per_shard: 150, uniform: 64, grid: 256, concurrent_every: 10 },
    }
}

fn minimise_case(case: &Case, f: &Fail) -> Case {
    // one row, and only the failing joint keeps its limits/draw where possible
    let mut cur = case.clone();
    if case.tasks <= 1 {
        cur.draws = vec![case.draws[f.row].clone()];
    }
    let still = |c: &Case| judge(c).iter().any(|g| g.clause == f.clause && g.signature == f.signature);
    if !still(&cur) {
        return case.clone();
    }
    for j in 0..6 {
        let mut t = cur.clone();
        t.from[j] = -1.0;
        t.to[j] = 1.0;
        for r in t.draws.iter_mut() {
            if j < r.len() {
                r[j] = Out::U(0.5);
            }
        }
        if still(&t) {
            cur = t;
        }
    }
    if cur.tasks > 1 {
        let mut t = cur.clone();
        t.tasks = 1;
        t.cfg = None;
        if still(&t) {
            cur = t;
        }
    }
    cur
}

/// The scenario of (seed, shard, run): limits, how the object is built, the rows of dictated
/// draws (locating the sampler's discontinuities calls the sampler: part of the history), the
/// relative sampled before each call. Pure function of its arguments and of whatever state the
/// sampler itself keeps.
fn gen_case(seed: u64, shard: usize, run: usize, t: &Tier, tally: &mut Tally) -> (Case, Constraints, [f64; 6], [f64; 6]) {
    let calls_before = CALLS.with(|n| n.get());
    let mut w = Rng::derive(seed, shard as u64, run as u64, "c18.workload");
    let (from, to) = gen_limits(&mut w);
    for j in 0..6 {
        tally.bump(&format!("limits_{}", class_of(from[j], to[j])), 1);
    }
    let ctor: u8 = match w.below(12) {
        0 | 1 => 1,
        2 => 2,
        3 => 3,
        4 => 4,
        5 => 5,
        6 => 6,
        7 => 7,
        8 => 8,
        9 => 9,
        _ => 0,
    };
    tally.bump(&format!("constraints_built_by_{}", ["new", "from_degrees", "update_range", "edited_fields_then_update_range", "new_then_widened_tolerances", "solver_constraints_by_prev", "solver_constraints_by_constraints", "solver_constraints_weight_half", "urdf_to_robot_with_offsets", "urdf_constraints"][ctor as usize]), 1);
    let c = build(&Case { from, to, draws: vec![], tasks: 1, cfg: None, ctor, prelude: None, gen_calls: 0, via_pool: false, regen: None });
    let rows = adversarial_rows(&c, &mut w, t.uniform, t.grid, tally);
    let concurrent = t.concurrent_every > 0 && run % t.concurrent_every == 0;
    // history: a wider (or narrower) set with bit-identical centres sampled just before
    // each observed call; limits symmetric about zero have centre exactly 0.0
    let symmetric = run % 7 == 3;
    let (from, to, prelude) = if symmetric {
        let half: [f64; 6] = std::array::from_fn(|_| w.range_f64(0.05, 3.0));
        let k = if w.chance(0.5) { w.range_f64(1.5, 6.0) } else { w.range_f64(0.05, 0.7) };
        let f2: [f64; 6] = std::array::from_fn(|j| -(half[j] * k).min(2.0 * PI));
        let t2: [f64; 6] = std::array::from_fn(|j| (half[j] * k).min(2.0 * PI));
        tally.bump("history_sets_sampled_after_a_sibling_with_identical_centres", 1);
        (std::array::from_fn(|j| -half[j]), half, Some((f2, t2)))
    } else if run % 3 == 1 {
        // other relatives of the set, sampled on the same thread just before: whatever a
        // sampler keeps from call to call (a memo of widths, a batch of ready samples, a
        // cached segment table) and validates by only PART of the limits is stale now
        let kind = w.below(5);
        let (pf, pt): ([f64; 6], [f64; 6]) = match kind {
            // the complementary arc on some joints (from and to exchanged)
            0 => {
                let mask: [bool; 6] = std::array::from_fn(|_| w.chance(0.5));
                let mask = if mask.iter().any(|b| *b) { mask } else { [true; 6] };
                (std::array::from_fn(|j| if mask[j] { to[j] } else { from[j] }), std::array::from_fn(|j| if mask[j] { from[j] } else { to[j] }))
            }
            // same start, other end
            1 => (from, std::array::from_fn(|j| to[j] + w.range_f64(-1.0, 1.0))),
            // same end, other start
            2 => (std::array::from_fn(|j| from[j] + w.range_f64(-1.0, 1.0)), to),
            // same widths, shifted
            3 => {
                let d = w.range_f64(-2.0, 2.0);
                (std::array::from_fn(|j| from[j] + d), std::array::from_fn(|j| to[j] + d))
            }
            // same sums (centres of ordinary ranges), other widths
            _ => {
                let k = w.range_f64(0.1, 0.9);
                (std::array::from_fn(|j| from[j] + k * (to[j] - from[j]) * 0.5), std::array::from_fn(|j| to[j] - k * (to[j] - from[j]) * 0.5))
            }
        };
        tally.bump(&format!("history_sets_sampled_after_a_relative_kind_{kind}"), 1);
        (from, to, Some((pf, pt)))
    } else if run % 13 == 6 {
        // a FAILED call just before, on the same thread: a set the sampler cannot serve (an
        // empty range on one joint, or a NaN limit) makes it panic, as it may; the panic is the
        // caller's to contain, and a valid set sampled afterwards must be served as ever (a lock
        // left poisoned, a half-updated memo or a counter left mid-way by the unwinding is not)
        let mut b = Rng::derive(seed, shard as u64, run as u64, "c18.failed-call");
        let j = b.below(6);
        let (mut pf, mut pt) = (from, to);
        if b.chance(0.5) {
            pt[j] = pf[j];
        } else if b.chance(0.5) {
            pf[j] = f64::NAN;
        } else {
            pt[j] = f64::NAN;
        }
        tally.bump("history_sets_sampled_after_a_call_that_failed", 1);
        (from, to, Some((pf, pt)))
    } else {
        (from, to, None)
    };
    let case = if concurrent {
        let mut knobs = Rng::derive(seed, shard as u64, run as u64, "c18.knobs");
        let cfg = SimCfg::swarm(&mut knobs, simctx::mix(&[seed, shard as u64, run as u64, 18]), 0, 100_000);
        tally.bump("concurrent_sampler_runs", 1);
        let via_pool = knobs.chance(0.5);
        if via_pool {
            tally.bump("concurrent_sampler_runs_on_pool_workers", 1);
        }
        Case { from, to, draws: rows.iter().take(24).cloned().collect(), tasks: knobs.range_usize(2, 4), cfg: Some(cfg), ctor, prelude: None, gen_calls: 0, via_pool, regen: None }
    } else {
        Case { from, to, draws: rows, tasks: 1, cfg: None, ctor: if prelude.is_some() { 0 } else { ctor }, prelude, gen_calls: 0, via_pool: false, regen: None }
    };
    let mut case = case;
    case.gen_calls = CALLS.with(|n| n.get()) - calls_before;
    (case, c, from, to)
}

pub fn case_json(tier_name: &str, seed: u64, shard: usize, run: usize) -> Option<Value> {
    Some(json!({"check": "C18", "case": Case { from: [0.0; 6], to: [1.0; 6], draws: vec![], tasks: 1, cfg: None, ctor: 0, prelude: None, gen_calls: 0, via_pool: false, regen: Some((tier_name.to_string(), seed, shard, run)) }}))
}

/// Everything the shard does for scenario (shard, run), in order: generation (which calls the
/// sampler), the sample call, every observed call, and minimisation of failures (more calls). The
/// history replay of a later failure runs exactly this, so that whatever the sampler keeps from
/// call to call has seen the same calls.
fn run_one(tier_name: &str, seed: u64, shard: usize, run: usize, t: &Tier, tally: &mut Tally) -> Vec<(String, String)> {
    let mut observed: Vec<(String, String)> = Vec::new();
    let (case, c, from, to) = gen_case(seed, shard, run, t, tally);
    tally.evaluations += case.draws.len() as u64;
    let any_wrap = (0..6).any(|j| from[j] > to[j]);
    for r in &case.draws {
        let mut words: Vec<u64> = Vec::with_capacity(20);
        let mut adversarial = false;
        for o in r.iter() {
            let key = match o {
                Out::U(_) => "draws_uniform_or_grid",
                Out::Low => "fault_draw_exactly_low",
                Out::HighMinus => "fault_draw_largest_below_high",
                Out::Abs(_) => "fault_draw_absolute",
            };
            tally.bump(key, 1);
            words.push(match o {
                Out::U(u) => u.to_bits(),
                Out::Low => 1,
                Out::HighMinus => 2,
                Out::Abs(v) => v.to_bits(),
            });
            adversarial |= !matches!(o, Out::U(_));
        }
        if any_wrap || adversarial {
            for j in 0..6 {
                words.push(from[j].to_bits());
                words.push(to[j].to_bits());
            }
            let h = ((simctx::mix(&words) as u128) << 64) | simctx::mix(&[simctx::mix(&words), 7]) as u128;
            tally.distinct.insert(h);
        }
    }
    if run < 2 {
        let v = call(&c, &case.draws[4.min(case.draws.len() - 1)]).ok();
        tally.samples.push(json!({"from": from, "to": to, "draws": case.draws[4.min(case.draws.len() - 1)], "sampled": v, "rows_for_this_set": case.draws.len()}));
    }
    let fails = judge(&case);
    let mut seen = std::collections::BTreeSet::new();
    for f in fails {
        if !seen.insert((f.clause.clone(), f.signature.clone())) {
            continue;
        }
        tally.bump("raw_failures", 1);
        observed.push((f.clause.clone(), f.detail.clone()));
        let min = minimise_case(&case, &f);
        let detail = judge(&min).into_iter().find(|g| g.clause == f.clause && g.signature == f.signature).map(|g| g.detail).unwrap_or(f.detail.clone());
        tally.violations.push(Violation {
            property: "C18".into(),
            clause: f.clause.clone(),
            signature: f.signature.clone(),
            detail,
            // fallback form: "scenario (shard, run) again, exactly as the shard ran it" (minimising
            // in the shard is done against whatever state earlier calls left in the sampler, and
            // the calls made while the scenario was generated are part of that state)
            case: json!({"check": "C18", "case": min, "fallback": case_json(tier_name, seed, shard, run)}),
            origin: Some((shard, run)),
        });
    }
    observed
}

pub fn run(tier_name: &str, seed: u64) -> i32 {
    let t = tier(tier_name);
    let started = std::time::Instant::now();
    let tally = report::run_shards(t.shards, |shard| {
        let mut tally = Tally::default();
        for run in 0..t.sets_per_shard {
            report::progress(shard, run);
            let _ = run_one(tier_name, seed, shard, run, &t, &mut tally);
        }
        tally
    });
    let wall = started.elapsed().as_secs_f64();
    let meta = CheckMeta {
        property: "C18",
        tier: if tier_name == "thorough" { "thorough" } else { "quick" },
        seed,
        level: "exploration",
        rule: "one evaluation = one call of the real Constraints::random_angles with all six draws dictated through the rand seam (uniform values, a u-grid, exactly-low, largest-below-high, repeated draws, and the two u values either side of every discontinuity of the sampler located by bisection); a tenth of the constraint sets are also sampled from 2-4 concurrent simulated tasks. distinct_nontrivial counts distinct calls (six limit pairs + six dictated outcomes) in which at least one joint has a wrap-around range or at least one draw is a boundary outcome.",
        assumptions: vec![
            "limits with from == to, or from > to with from - to a whole number of turns (zero-width arc), are outside the property's positive-width domain and are not generated".into(),
            "membership in the arc is judged with a 1e-9 rad guard band; compliant() is consulted only for vectors well inside every arc".into(),
            "rand is a contract model (sim-rand): values inside the requested range, panic on an empty range".into(),
        ],
        components: json!({
            "real": ["/repo/src/constraints.rs (random_angles, compliant)"],
            "stub_contract_model": ["rand (sim-rand)"],
            "simulator": ["outcome injection through simctx; shuttle tasks for the concurrent-sampler runs"],
        }),
        exhaustive: false,
    };
    report::finish(meta, tally, wall, &|v| replay_all(&v["case"]), &|shard, run| case_json(tier_name, seed, shard, run))
}

#[allow(dead_code)]
fn _unused(_: Outcome) {}
