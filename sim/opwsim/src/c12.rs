//! C12 — a planned Cartesian stroke is collision-free, in limits, continuous and linear, and
//! whether planning succeeds does not depend on the schedule of the strategy race.
//!
//! System under simulation: `Cartesian::plan` -> strategy race on the simulated rayon pool ->
//! `probe_strategy` -> adaptive linear transitions -> (on failure) `RRTPlanner::plan_rrt`, all
//! sharing one `stop` flag (a shuttle atomic through hook H1). Random samples come from the rand
//! seam, keyed by logical strategy so that they do not change with the schedule.

use crate::cell::*;
use crate::gen::{self, CellKnobs, LimitKind};
use crate::minimise;
use crate::oracle::{self, Tri};
use crate::probe::{self, Cancel, Kind, Trace};
use crate::report::{self, CheckMeta, Tally, Violation};
use crate::sim::{self, Abort, SchedSpec, SimCfg, SimOut};
use nalgebra::{Isometry3, Quaternion, Translation3, UnitQuaternion};
use rs_opw_kinematics::cartesian::{Cartesian, DEFAULT_TRANSITION_COSTS};
use rs_opw_kinematics::kinematic_traits::{Kinematics, Pose};
use rs_opw_kinematics::kinematics_with_shape::KinematicsWithShape;
use rs_opw_kinematics::rrt::RRTPlanner;
use serde::{Deserialize, Serialize};
use serde_json::{json, Value};
use simctx::Rng;
use std::collections::BTreeSet;
use std::sync::Arc;

pub const F_ONBOARDING: u32 = 1 << 1;
pub const F_TRACE: u32 = 1 << 2;
pub const F_LIN_INTERP: u32 = 1 << 3;
pub const F_LAND: u32 = 1 << 4;
pub const F_PARK: u32 = 1 << 6;

const POS_TOL: f64 = 3e-6;
const ANG_TOL: f64 = 3e-6;

#[derive(Clone, Debug, Serialize, Deserialize)]
pub struct Case {
    pub cell: CellSpec,
    pub from: [f64; 6],
    /// tx, ty, tz, qw, qi, qj, qk
    pub land: [f64; 7],
    pub steps: Vec<[f64; 7]>,
    pub park: [f64; 7],
    pub check_step_m: f64,
    pub check_step_rad: f64,
    pub max_transition_cost: f64,
    pub recursion_depth: usize,
    pub include_lin: bool,
    pub rrt_step: f64,
    pub rrt_max_try: usize,
    pub cfgs: Vec<SimCfg>,
    /// per-joint weights of the transition cost (None: the library's DEFAULT_TRANSITION_COSTS)
    #[serde(default)]
    pub coefficients: Option<[f64; 6]>,
    /// further executions with OTHER random outcomes ("repeated runs"): judged path by path, not
    /// compared with the others for success (different samples may legitimately decide otherwise)
    #[serde(default)]
    pub cfgs_other_rng: Vec<SimCfg>,
}

fn pose_of(p: &[f64; 7]) -> Pose {
    Isometry3::from_parts(Translation3::new(p[0], p[1], p[2]), UnitQuaternion::from_quaternion(Quaternion::new(p[3], p[4], p[5], p[6])))
}
fn pose_numbers(p: &Pose) -> [f64; 7] {
    [p.translation.x, p.translation.y, p.translation.z, p.rotation.w, p.rotation.i, p.rotation.j, p.rotation.k]
}

type Path = Vec<([f64; 6], u32)>;

#[derive(Clone, Debug)]
pub struct Obs {
    pub result: Result<Path, String>,
    pub trace: Trace,
}

#[derive(Clone, Debug)]
pub struct Fail {
    pub clause: String,
    pub signature: String,
    pub detail: String,
    pub cfgs: Vec<usize>,
}

fn execute(robot: &Arc<KinematicsWithShape>, case: &Case, cfg: &SimCfg) -> SimOut<Obs> {
    report::progress_case(|| { let mut c = case.clone(); c.cfgs = vec![cfg.clone()]; c.cfgs_other_rng.clear(); json!({"check": "C12", "case": c}) });
    let robot = robot.clone();
    let c = case.clone();
    sim::simulate(cfg, move || {
        probe::begin(None, Cancel::Never, true);
        let planner = Cartesian {
            robot: robot.as_ref(),
            check_step_m: c.check_step_m,
            check_step_rad: c.check_step_rad,
            max_transition_cost: c.max_transition_cost,
            transition_coefficients: c.coefficients.unwrap_or(DEFAULT_TRANSITION_COSTS),
            linear_recursion_depth: c.recursion_depth,
            rrt: RRTPlanner { step_size_joint_space: c.rrt_step, max_try: c.rrt_max_try, debug: false },
            include_linear_interpolation: c.include_lin,
            debug: false,
        };
        let steps: Vec<Pose> = c.steps.iter().map(pose_of).collect();
        let result = planner
            .plan(&c.from, &pose_of(&c.land), steps, &pose_of(&c.park))
            .map(|p| p.into_iter().map(|a| (a.joints, a.flags.bits())).collect::<Path>());
        Obs { result, trace: probe::end() }
    })
}

fn same(a: &[f64; 6], b: &[f64; 6]) -> bool {
    a.iter().zip(b).all(|(x, y)| x.to_bits() == y.to_bits())
}
fn jdist(a: &[f64; 6], b: &[f64; 6]) -> f64 {
    a.iter().zip(b).map(|(x, y)| (x - y) * (x - y)).sum::<f64>().sqrt()
}
fn pose_close(a: &Pose, b: &Pose) -> bool {
    (a.translation.vector - b.translation.vector).norm() <= POS_TOL && a.rotation.angle_to(&b.rotation) <= ANG_TOL
}
fn cost(a: &[f64; 6], b: &[f64; 6], k: &[f64; 6]) -> f64 {
    (0..6).map(|i| (a[i] - b[i]).abs() * k[i]).sum()
}

/// Distance of point p from segment [a, b], and the parameter of the closest point.
fn seg_dist(p: &nalgebra::Vector3<f64>, a: &nalgebra::Vector3<f64>, b: &nalgebra::Vector3<f64>) -> (f64, f64) {
    let ab = b - a;
    let l2 = ab.norm_squared();
    if l2 < 1e-24 {
        return ((p - a).norm(), 0.0);
    }
    let t = ((p - a).dot(&ab) / l2).clamp(0.0, 1.0);
    ((p - (a + ab * t)).norm(), t)
}

/// Did the strategy that produced the path re-plan with RRT inside the stroke (gap closing)?
/// Its seam events are those under one logical path; the first IK event there has the strategy
/// itself as `previous`; samples AFTER that first IK event belong to gap closing.
fn gap_closing(trace: &Trace, strategy: &[f64; 6]) -> Option<bool> {
    let key = probe::joints_key(strategy);
    let mut group: Option<u64> = None;
    let mut first_ik_seq: std::collections::HashMap<u64, (u64, u64)> = std::collections::HashMap::new();
    for (i, (seq, kind)) in trace.events.iter().enumerate() {
        let (path, k) = trace.where_[i];
        if *kind == Kind::Ik && path != 0 && !first_ik_seq.contains_key(&path) {
            first_ik_seq.insert(path, (*seq, k));
        }
    }
    for (path, (_, k)) in &first_ik_seq {
        if *k == key {
            group = Some(*path);
        }
    }
    let g = group?;
    let first = first_ik_seq[&g].0;
    Some(trace.events.iter().enumerate().any(|(i, (seq, kind))| *kind == Kind::Sample && trace.where_[i].0 == g && *seq > first))
}

pub fn judge_path(case: &Case, oc: &OracleCell, path: &Path, trace: &Trace, ci: usize, fails: &mut Vec<Fail>) {
    let mut push = |clause: &str, sig: &str, detail: String| {
        fails.push(Fail { clause: clause.into(), signature: format!("C12/{sig}"), detail, cfgs: vec![ci] });
    };
    if path.is_empty() {
        push("c:empty-path", "empty-path", "Ok(path) without waypoints".into());
        return;
    }
    let stack = &oc.stack;
    let land = pose_of(&case.land);
    let park = pose_of(&case.park);
    let steps: Vec<Pose> = case.steps.iter().map(pose_of).collect();

    // the forward kinematics used to judge LAND / TRACE / PARK must itself be the published OPW
    // geometry behind base and tool (independent formula), otherwise the clauses below prove nothing
    for w in path.iter().take(3).chain(path.iter().rev().take(2)) {
        if w.0.iter().any(|x| !x.is_finite() || x.abs() > 50.0) {
            continue;
        }
        let (dt, dr) = oracle::placement_error(&case.cell, &stack.forward_with_joint_poses(&w.0), &w.0);
        if dt > 1e-9 || dr > 1e-8 {
            push("p:link-placement", "link-placement", format!("the link poses used for collision checking deviate from forward kinematics of the OPW geometry by {dt:.3e} m / {dr:.3e} rad"));
            break;
        }
        let a = stack.forward(&w.0);
        let b = oracle::independent_forward(&case.cell, &w.0);
        if (a.translation.vector - b.translation.vector).norm() > 1e-9 || a.rotation.angle_to(&b.rotation) > 1e-8 {
            push("p:forward-kinematics", "forward-kinematics", format!("forward() of the kinematic stack deviates from the OPW geometry for {:?}", w.0));
            break;
        }
    }

    // (c) flags and order
    let land_idx: Vec<usize> = path.iter().enumerate().filter(|(_, w)| w.1 & F_LAND != 0).map(|(i, _)| i).collect();
    if land_idx.len() != 1 {
        push("c:land-flag-count", "flags/land-count", format!("{} waypoints carry LAND (expected exactly one)", land_idx.len()));
        return;
    }
    let li = land_idx[0];
    let gap = gap_closing(trace, &path[li].0);
    let strict = gap == Some(false);

    // (b) start configuration and the joint-space leg up to LAND
    if !same(&path[0].0, &case.from) {
        push(
            "b:not-from-start",
            "start/not-from-start",
            format!("path[0] = {:?} is not the given start configuration {:?}; the LAND waypoint is #{li} of {}", path[0].0, case.from, path.len()),
        );
    }
    for i in 1..=li {
        let d = jdist(&path[i - 1].0, &path[i].0);
        if d > 3.0 * case.rrt_step + 1e-9 {
            push(
                "b:onboarding-step-too-long",
                "start/onboarding-jump",
                format!("waypoints #{} and #{i} before/at LAND are {d:.5} rad apart (joint-space step is {:.5})", i - 1, case.rrt_step),
            );
            break;
        }
    }
    if !pose_close(&stack.forward(&path[li].0), &land) {
        push("c:land-pose", "flags/land-pose", format!("forward kinematics of the LAND waypoint #{li} is not the landing pose"));
    }
    // TRACE / PARK in order
    let mut next = 0usize;
    for (i, w) in path.iter().enumerate().skip(li + 1) {
        if w.1 & F_TRACE != 0 {
            let fk = stack.forward(&w.0);
            if next < steps.len() && pose_close(&fk, &steps[next]) {
                next += 1;
            } else if next > 0 && pose_close(&fk, &steps[next - 1]) && !strict {
                // a repeated stroke pose produced by RRT gap closing
            } else if strict {
                push(
                    "c:trace-flag",
                    "flags/trace-order",
                    format!("waypoint #{i} carries TRACE but its pose is not stroke pose #{next} (of {})", steps.len()),
                );
                break;
            }
        }
        if w.1 & F_PARK != 0 && i != path.len() - 1 && strict {
            push("c:park-not-last", "flags/park-not-last", format!("waypoint #{i} of {} carries PARK but is not the last one", path.len()));
        }
    }
    if next != steps.len() {
        push(
            "c:trace-missing",
            "flags/trace-missing",
            format!("only {next} of the {} stroke poses appear (in order, flagged TRACE) after LAND", steps.len()),
        );
    }
    let last = path.len() - 1;
    if path[last].1 & F_PARK == 0 {
        push("c:park-missing", "flags/park-missing", "the last waypoint does not carry PARK".into());
    } else if !pose_close(&stack.forward(&path[last].0), &park) {
        push("c:park-pose", "flags/park-pose", "forward kinematics of the PARK waypoint is not the parking pose".into());
    }
    for (i, w) in path.iter().enumerate().take(li) {
        if w.1 & (F_TRACE | F_PARK | F_LIN_INTERP) != 0 {
            push("c:stroke-flag-before-land", "flags/before-land", format!("waypoint #{i} before LAND carries stroke flags {:#b}", w.1));
            break;
        }
    }

    // (f) interpolated waypoints only when requested: whatever they are flagged as. Without RRT
    // gap closing, LAND is followed by exactly one waypoint per stroke pose and PARK.
    if !case.include_lin && strict {
        let after = path.len() - 1 - li;
        if after > steps.len() + 1 {
            let extra = path.iter().enumerate().skip(li + 1).find(|(_, w)| w.1 & (F_TRACE | F_PARK) == 0).map(|(i, w)| format!("e.g. waypoint #{i} with flags {:#b}", w.1)).unwrap_or_default();
            push(
                "f:extra-waypoints-not-requested",
                "lin-interp-present/unflagged",
                format!("include_linear_interpolation is false, the stroke has {} poses, yet {} waypoints follow LAND ({extra})", steps.len(), after),
            );
        }
    }
    if !case.include_lin {
        if let Some((i, _)) = path.iter().enumerate().find(|(_, w)| w.1 & F_LIN_INTERP != 0) {
            push(
                "f:lin-interp-not-requested",
                "lin-interp-present",
                format!("include_linear_interpolation is false but waypoint #{i} (of {}) carries LIN_INTERP", path.len()),
            );
        }
    }

    // (d) linearity of interpolated waypoints: between which input poses does it lie?
    let mut inputs: Vec<Pose> = vec![land];
    inputs.extend(steps.iter().cloned());
    inputs.push(park);
    let mut seg = 0usize; // current segment inputs[seg] -> inputs[seg+1]
    for (i, w) in path.iter().enumerate().skip(li + 1) {
        let fk = stack.forward(&w.0);
        if w.1 & F_LIN_INTERP != 0 && seg + 1 < inputs.len() {
            let (a, b) = (&inputs[seg], &inputs[seg + 1]);
            let (d, _t) = seg_dist(&fk.translation.vector, &a.translation.vector, &b.translation.vector);
            let total = a.rotation.angle_to(&b.rotation);
            let via = a.rotation.angle_to(&fk.rotation) + fk.rotation.angle_to(&b.rotation);
            if d > POS_TOL {
                push(
                    "d:off-the-segment",
                    "linearity/position",
                    format!("LIN_INTERP waypoint #{i} is {:.3e} m away from the straight segment between input poses #{seg} and #{}", d, seg + 1),
                );
                break;
            }
            if via - total > 4.0 * ANG_TOL {
                push(
                    "d:off-the-slerp-arc",
                    "linearity/rotation",
                    format!("LIN_INTERP waypoint #{i}: rotation is {:.3e} rad off the shortest arc between input poses #{seg} and #{}", via - total, seg + 1),
                );
                break;
            }
        }
        if w.1 & (F_TRACE | F_PARK) != 0 && seg + 1 < inputs.len() && pose_close(&fk, &inputs[seg + 1]) {
            seg += 1;
        }
    }

    // (e) transition cost between consecutive Cartesian waypoints (no RRT re-planning involved).
    // Only when the interpolated waypoints were requested: without them the returned list
    // deliberately skips the intermediate configurations the bound was enforced on.
    if strict && case.include_lin {
        for i in (li + 1)..path.len() {
            let c = cost(&path[i - 1].0, &path[i].0, &case.coefficients.unwrap_or(DEFAULT_TRANSITION_COSTS));
            if c > case.max_transition_cost * (1.0 + 1e-12) + 1e-15 {
                push(
                    "e:transition-cost",
                    "transition-cost",
                    format!("Cartesian waypoints #{} -> #{i}: transition cost {:.6} rad exceeds the configured {:.6}", i - 1, c, case.max_transition_cost),
                );
                break;
            }
        }
    }

    // (a) collisions and limits on every waypoint
    for (i, w) in path.iter().enumerate() {
        if w.0.iter().any(|x| !x.is_finite()) {
            push("a:not-finite", "waypoint/not-finite", format!("waypoint #{i} = {:?}", w.0));
            continue;
        }
        if case.cell.safety.mode != Mode::NoCheck {
            let b = oracle::brute_q(oc, &w.0, &case.cell.safety);
            if b.any_definite() {
                let place = if i < li {
                    "onboarding"
                } else if i == li {
                    "land"
                } else if strict || w.1 & F_LIN_INTERP != 0 {
                    "stroke"
                } else {
                    "stroke-or-replanned"
                };
                push(
                    "a:waypoint-collides",
                    &format!("collision/{place}"),
                    format!("waypoint #{i} of {} (flags {:#b}) collides on pairs {:?}: {:?}", path.len(), w.1, b.definite(), w.0),
                );
                break;
            }
        }
    }
    if let Some((f, t)) = &case.cell.limits {
        for (i, w) in path.iter().enumerate() {
            // IK-produced waypoints (LAND and everything Cartesian) are filtered by the limits
            let cartesian = i >= li && (strict || w.1 & (F_LIN_INTERP | F_LAND) != 0);
            if cartesian && oracle::within_limits(&w.0, f, t, 1e-9) == Tri::No {
                push("a:waypoint-outside-limits", "limits", format!("waypoint #{i} = {:?} is outside the joint limits", w.0));
                break;
            }
        }
    }
}

/// Waypoints of a successful plan that no collision check of the run was asked about. Not a
/// verdict; it tells the fault injector where an obstacle would matter.
pub fn unchecked_waypoints(obs: &Obs) -> Vec<[f64; 6]> {
    let Ok(path) = &obs.result else { return vec![] };
    let checked: std::collections::HashSet<u64> = obs
        .trace
        .events
        .iter()
        .enumerate()
        .filter(|(_, (_, k))| *k == Kind::Collision)
        .map(|(i, _)| obs.trace.where_[i].1)
        .collect();
    path.iter().skip(1).filter(|w| !checked.contains(&probe::joints_key(&w.0))).map(|w| w.0).collect()
}

/// Guided fault placement: the same run (recorded random outcomes and schedule) in a cell with one
/// more obstacle, placed where the robot is at a waypoint nobody collision-checked.
pub fn guided_cases(case: &Case, ci: usize, out: &SimOut<Obs>) -> Vec<Case> {
    let Ok(obs) = &out.result else { return vec![] };
    let oc = OracleCell::new(&case.cell);
    let mut cases = Vec::new();
    for node in unchecked_waypoints(obs).into_iter().take(2) {
        let poses = oracle::link_poses(&oc, &node);
        let (mesh, pose) = match &oc.tool {
            Some(t) => (t, poses[5]),
            None => (&oc.links[4], poses[4]),
        };
        use parry3d::shape::Shape;
        let c = mesh.compute_aabb(&pose).center();
        let mut cell = case.cell.clone();
        cell.env.push(EnvSpec {
            mesh: MeshSpec::cube([0.02, 0.02, 0.02], [0.0; 3], 1),
            pose: PoseSpec { t: [c.x as f64, c.y as f64, c.z as f64], rpy: [0.0; 3] },
        });
        let oc2 = OracleCell::new(&cell);
        let b = oracle::brute_q(&oc2, &case.from, &cell.safety);
        if b.any_definite() || b.any_dont_care() {
            continue;
        }
        let mut c2 = case.clone();
        c2.cell = cell;
        c2.cfgs = vec![minimise::with_replay(&case.cfgs[ci], out.schedule.clone(), Some(out.rng_record.clone()))];
        cases.push(c2);
    }
    cases
}

pub fn judge(case: &Case) -> Vec<Fail> {
    let robot = Arc::new(case.cell.build_probed_robot());
    judge_with(case, &robot, &mut |_, _| {})
}

fn judge_with(case: &Case, robot: &Arc<KinematicsWithShape>, observe: &mut dyn FnMut(usize, &SimOut<Obs>)) -> Vec<Fail> {
    let oc = OracleCell::new(&case.cell);
    let mut fails = Vec::new();
    let mut oks: Vec<(usize, bool, String)> = Vec::new();
    for (ci, cfg) in case.cfgs.iter().enumerate() {
        let out = execute(robot, case, cfg);
        observe(ci, &out);
        match &out.result {
            Err(abort) => {
                let (clause, msg) = match abort {
                    Abort::Panic(m) => ("h:panic", m.clone()),
                    Abort::Deadlock(m) => ("h:deadlock", m.clone()),
                    Abort::StepLimit(m) => ("h:step-limit", m.clone()),
                };
                let site = msg.rsplit(" @ ").next().unwrap_or("").rsplit('/').next().unwrap_or("").to_string();
                fails.push(Fail { clause: clause.into(), signature: format!("C12/{clause}/{site}"), detail: msg, cfgs: vec![ci] });
            }
            Ok(obs) => match &obs.result {
                Ok(path) => {
                    judge_path(case, &oc, path, &obs.trace, ci, &mut fails);
                    oks.push((ci, true, format!("Ok({} waypoints)", path.len())));
                }
                Err(e) => oks.push((ci, false, format!("Err({e})"))),
            },
        }
    }
    for (k, cfg) in case.cfgs_other_rng.iter().enumerate() {
        let ci = case.cfgs.len() + k;
        let out = execute(robot, case, cfg);
        observe(ci, &out);
        match &out.result {
            Err(abort) => {
                let (clause, msg) = match abort {
                    Abort::Panic(m) => ("h:panic", m.clone()),
                    Abort::Deadlock(m) => ("h:deadlock", m.clone()),
                    Abort::StepLimit(m) => ("h:step-limit", m.clone()),
                };
                let site = msg.rsplit(" @ ").next().unwrap_or("").rsplit('/').next().unwrap_or("").to_string();
                fails.push(Fail { clause: clause.into(), signature: format!("C12/{clause}/{site}"), detail: msg, cfgs: vec![ci] });
            }
            Ok(obs) => {
                if let Ok(path) = &obs.result {
                    judge_path(case, &oc, path, &obs.trace, ci, &mut fails);
                }
            }
        }
    }
    // (g) success must not depend on the schedule (random outcomes are keyed by strategy, so
    // they are the same in every schedule)
    if oks.len() >= 2 {
        let (i0, ok0, d0) = &oks[0];
        for (ik, okk, dk) in &oks[1..] {
            if ok0 != okk {
                fails.push(Fail {
                    clause: "g:success-depends-on-schedule".into(),
                    signature: "C12/success-depends-on-schedule".into(),
                    detail: format!("same stroke, same random outcomes: {d0} under configuration #{i0} but {dk} under configuration #{ik}"),
                    cfgs: vec![*i0, *ik],
                });
                break;
            }
        }
    }
    fails
}

pub fn replay_all(case: &Value) -> Vec<(String, String)> {
    match serde_json::from_value::<Case>(case.clone()) {
        Ok(c) => judge(&c).into_iter().map(|f| (f.clause, f.detail)).collect(),
        Err(e) => vec![("harness:bad-case".into(), e.to_string())],
    }
}

fn simplifications(case: &Case) -> Vec<Case> {
    let mut out = Vec::new();
    if case.cfgs.len() > 2 {
        for i in 0..case.cfgs.len() {
            let mut c = case.clone();
            c.cfgs.remove(i);
            out.push(c);
        }
    }
    for k in 0..case.cell.env.len() {
        let mut c = case.clone();
        c.cell.env.remove(k);
        c.cell.safety.special.retain(|s| s.0 as usize != ENV0 + k && s.1 as usize != ENV0 + k);
        for s in c.cell.safety.special.iter_mut() {
            if s.0 as usize > ENV0 + k {
                s.0 -= 1;
            }
            if s.1 as usize > ENV0 + k {
                s.1 -= 1;
            }
        }
        out.push(c);
    }
    for i in 0..case.steps.len() {
        let mut c = case.clone();
        c.steps.remove(i);
        out.push(c);
    }
    for i in 0..case.cell.safety.special.len() {
        let mut c = case.clone();
        c.cell.safety.special.remove(i);
        out.push(c);
    }
    if case.cell.tool.is_some() {
        let mut c = case.clone();
        c.cell.tool = None;
        c.cell.safety.special.retain(|s| s.0 as usize != J_TOOL && s.1 as usize != J_TOOL);
        out.push(c);
    }
    if case.cell.base.is_some() {
        let mut c = case.clone();
        c.cell.base = None;
        c.cell.safety.special.retain(|s| s.0 as usize != J_BASE && s.1 as usize != J_BASE);
        out.push(c);
    }
    if case.recursion_depth > 0 {
        let mut c = case.clone();
        c.recursion_depth = 0;
        out.push(c);
    }
    for i in 0..case.cfgs.len() {
        for s in minimise::simpler_cfgs(&case.cfgs[i]) {
            let mut c = case.clone();
            c.cfgs[i] = s;
            out.push(c);
        }
    }
    out
}

fn minimise_case(case: &Case, clause: &str, signature: &str) -> Case {
    let mut still = |c: &Case| judge(c).iter().any(|f| f.clause == clause && f.signature == signature);
    let mut cur = minimise::greedy(case.clone(), &simplifications, &mut still, 50);
    for i in 0..cur.cfgs.len() {
        let robot = Arc::new(cur.cell.build_probed_robot());
        let out = execute(&robot, &cur, &cur.cfgs[i]);
        let mut trial = cur.clone();
        trial.cfgs[i] = minimise::with_replay(&cur.cfgs[i], out.schedule.clone(), Some(out.rng_record.clone()));
        if !still(&trial) {
            continue;
        }
        let base = trial.clone();
        let shrunk = minimise::shrink_schedule(
            &out.schedule,
            &mut |l: &[u32]| {
                let mut t = base.clone();
                t.cfgs[i].sched = SchedSpec::Replay(l.to_vec());
                still(&t)
            },
            25,
        );
        trial.cfgs[i].sched = SchedSpec::Replay(shrunk);
        cur = trial;
    }
    cur
}

pub struct Tier {
    pub shards: usize,
    pub per_shard: usize,
    pub schedules: usize,
}

pub fn tier(name: &str) -> Tier {
    match name {
        "thorough" => Tier { shards: 256, per_shard: 60, schedules: 6 },
        "smoke" => Tier { shards: 4, per_shard: 6, schedules: 3 },
        _ => Tier { shards: 32, per_shard: 50, schedules: 3 },
    }
}

pub fn gen_case(seed: u64, shard: u64, run: u64, t: &Tier) -> Option<(Case, &'static str)> {
    let mut w = Rng::derive(seed, shard, run, "c12.workload");
    let mut knobs = Rng::derive(seed, shard, run, "c12.knobs");
    let layout = *knobs.pick(&["free", "free", "grazing", "blocking", "approach"]);
    let k = CellKnobs {
        tool_p: 0.7,
        base_p: 0.6,
        max_env: if layout == "free" { 1 } else { 3 },
        max_sub: 2,
        limits: if Rng::derive(seed, shard, run, "c12.wrapping").chance(0.12) { LimitKind::Wrapping } else if knobs.chance(0.6) { LimitKind::Wide } else { LimitKind::Narrow },
        ctor: Ctor::Direct,
        touch_only: false,
        sparse: true,
    };
    let mut cell = gen::gen_robot(&mut w, &k);
    cell.safety = gen::gen_safety(&mut w, cell.tool.is_some(), cell.base.is_some(), 3, false, true);
    if cell.safety.mode == Mode::NoCheck {
        cell.safety.mode = Mode::First;
    }
    let stack = cell.reference_stack();
    let (lf, lt) = cell.limits.unwrap();
    let clampq = |q: &mut [f64; 6]| {
        for j in 0..6 {
            if lf[j] < lt[j] {
                q[j] = q[j].clamp(lf[j] + 1e-3, lt[j] - 1e-3);
            } else if oracle::on_arc(q[j], lf[j], lt[j], 1e-3) != oracle::Tri::Yes {
                // wrap-around arc: back onto it, a little after its start
                q[j] = lf[j] + 0.05;
            }
        }
    };
    // stroke as a smooth joint-space curve, so that a continuous solution exists
    let mut q_land = gen::gen_posture(&mut w, &cell.limits);
    // keep away from the wrist singularity most of the time
    if q_land[4].abs() < 0.3 && w.chance(0.8) {
        q_land[4] = 0.3 + w.range_f64(0.0, 0.8);
    }
    clampq(&mut q_land);
    let n_steps = if w.chance(0.1) { w.range_usize(5, 9) } else { w.below(5) };
    let big = w.chance(0.25);
    let d: [f64; 6] = std::array::from_fn(|_| {
        let m = if big { w.range_f64(0.1, 0.5) } else { w.range_f64(0.01, 0.1) };
        if w.chance(0.5) {
            m
        } else {
            -m
        }
    });
    let mut curve = vec![q_land];
    for i in 0..=n_steps {
        let mut q = curve[i];
        for j in 0..6 {
            q[j] += d[j] * w.range_f64(0.5, 1.5);
        }
        clampq(&mut q);
        curve.push(q);
    }
    // obstacles relative to a posture on the stroke; in the "approach" layout relative to a
    // posture between the (future) start configuration and the landing configuration, so that the
    // onboarding move has something to go around
    let approach_dir: [f64; 6] = std::array::from_fn(|_| w.range_f64(-0.5, 0.5));
    let anchor = if layout == "approach" {
        let mut q = q_land;
        for j in 0..6 {
            q[j] += approach_dir[j] * 0.5;
        }
        clampq(&mut q);
        q
    } else {
        curve[w.below(curve.len())]
    };
    if layout != "free" || w.chance(0.3) {
        let mut kk = k;
        kk.sparse = layout == "free";
        gen::add_environment(&mut w, &mut cell, &anchor, &kk);
    }
    let n_env = cell.env.len();
    cell.safety.special.retain(|s| (s.0 as usize) < ENV0 + n_env && (s.1 as usize) < ENV0 + n_env);
    let oc = OracleCell::new(&cell);
    // the landing configuration itself should be free, otherwise there is rarely a strategy
    {
        let b = oracle::brute_q(&oc, &q_land, &cell.safety);
        if b.any_definite() && w.chance(0.85) {
            return None;
        }
    }
    // collision-free start near the landing configuration
    let mut from = None;
    for _ in 0..40 {
        let mut q = q_land;
        for j in 0..6 {
            q[j] += if layout == "approach" { approach_dir[j] * w.range_f64(0.9, 1.3) } else { w.range_f64(-0.5, 0.5) };
        }
        clampq(&mut q);
        let b = oracle::brute_q(&oc, &q, &cell.safety);
        if !b.any_definite() && !b.any_dont_care() {
            from = Some(q);
            break;
        }
    }
    let mut from = from?;
    // coincidences: the start configuration already is the landing configuration
    if w.chance(0.05) {
        let b = oracle::brute_q(&oc, &q_land, &cell.safety);
        if !b.any_definite() && !b.any_dont_care() {
            from = q_land;
        }
    }
    let poses: Vec<[f64; 7]> = curve.iter().map(|q| pose_numbers(&stack.forward(q))).collect();
    let land = poses[0];
    let mut park = poses[poses.len() - 1];
    let mut steps = poses[1..poses.len() - 1].to_vec();
    // coincidences: park where we landed; the same stroke pose twice in a row
    if w.chance(0.05) {
        park = land;
    }
    if !steps.is_empty() && w.chance(0.05) {
        let k = w.below(steps.len());
        let dup = steps[k];
        steps.insert(k, dup);
    }
    // a pivot in place now and then: the same tool-centre position with another orientation
    // (position-only reasoning about "the same pose" and rotation-only interpolation are what it
    // exercises), together with fine check steps
    let mut pv = Rng::derive(seed, shard, run, "c12.pivot");
    let pivot = pv.chance(0.1);
    if pivot && !steps.is_empty() {
        let k = pv.below(steps.len());
        let p = steps[k];
        let axis = nalgebra::Unit::new_normalize(nalgebra::Vector3::new(pv.range_f64(-1.0, 1.0), pv.range_f64(-1.0, 1.0), pv.range_f64(-1.0, 1.0) + 1e-3));
        let turn = nalgebra::UnitQuaternion::from_axis_angle(&axis, pv.range_f64(5.0, 40.0f64).to_radians() * if pv.chance(0.5) { 1.0 } else { -1.0 });
        let r = nalgebra::UnitQuaternion::from_quaternion(nalgebra::Quaternion::new(p[3], p[4], p[5], p[6])) * turn;
        steps.insert(k + 1, [p[0], p[1], p[2], r.w, r.i, r.j, r.k]);
    }
    let fine_rad = if pv.chance(if pivot { 0.6 } else { 0.05 }) { Some(pv.range_f64(0.05, 0.3f64).to_radians()) } else { None };
    let fine_m = if pv.chance(0.05) { Some(0.001) } else { None };
    let mut cfgs = Vec::new();
    let rng_seed = simctx::mix(&[seed, shard, run, simctx::name_hash("c12.rng")]);
    let rrt_step = w.range_f64(1.0, 10.0f64).to_radians();
    // adversarial RRT samples: exactly the start, and points within one planner step of it
    let two_pi = 2.0 * std::f64::consts::PI;
    let target = |v: &[f64; 6]| -> Vec<f64> { (0..6).map(|j| (v[j] - lf[j]).rem_euclid(two_pi)).collect() };
    let mut abs = vec![target(&from)];
    for _ in 0..3 {
        let mut q = from;
        let mut dirv: [f64; 6] = std::array::from_fn(|_| w.range_f64(-1.0, 1.0));
        let n = dirv.iter().map(|x| x * x).sum::<f64>().sqrt().max(1e-9);
        for x in dirv.iter_mut() {
            *x /= n;
        }
        let frac = w.range_f64(0.3, 0.98);
        for j in 0..6 {
            q[j] += dirv[j] * rrt_step * frac;
        }
        abs.push(target(&q));
    }
    let adversarial = *knobs.pick(&[0.0, 0.0, 0.1, 0.5]);
    for s in 0..t.schedules {
        let sched_seed = simctx::mix(&[seed, shard, run, s as u64, simctx::name_hash("c12.sched")]);
        let mut cfg = SimCfg::swarm(&mut knobs, sched_seed, rng_seed, 4_000_000);
        cfg.rng = sim::RngSpec::Stream { seed: rng_seed, adversarial, abs: abs.clone(), period: 6 };
        // the first configuration is the sequential reference; nested collision checks mostly inline
        if s == 0 {
            cfg.pool = 1;
        }
        cfg.inner_full = knobs.chance(0.15);
        cfgs.push(cfg);
    }
    let other = {
        let seed2 = simctx::mix(&[rng_seed, 0x0CE]);
        let mut cfg = SimCfg::swarm(&mut knobs, simctx::mix(&[seed, shard, run, 99, simctx::name_hash("c12.sched")]), seed2, 4_000_000);
        cfg.rng = sim::RngSpec::Stream { seed: seed2, adversarial, abs: abs.clone(), period: 6 };
        cfg.inner_full = false;
        vec![cfg]
    };
    let case = Case {
        cell,
        from,
        land,
        steps,
        park,
        check_step_m: {
            let v = *w.pick(&[0.005, 0.01, 0.02, 0.05, 0.1]);
            fine_m.unwrap_or(v)
        },
        check_step_rad: {
            let v = w.range_f64(1.0, 15.0f64).to_radians();
            fine_rad.unwrap_or(v)
        },
        max_transition_cost: w.range_f64(1.0, 30.0f64).to_radians(),
        recursion_depth: w.below(9),
        include_lin: w.chance(0.5),
        rrt_step,
        rrt_max_try: *w.pick(&[0, 1, 5, 30, 100, 300, 300]),
        cfgs,
        coefficients: if w.chance(0.5) { Some(std::array::from_fn(|_| w.range_f64(0.2, 6.0))) } else { None },
        cfgs_other_rng: other,
    };
    Some((case, layout))
}

pub fn run(tier_name: &str, seed: u64) -> i32 {
    let t = tier(tier_name);
    let started = std::time::Instant::now();
    let tally = report::run_shards(t.shards, |shard| {
        let mut tally = Tally::default();
        for run in 0..t.per_shard {
            report::progress(shard, run);
            let Some((case, layout)) = gen_case(seed, shard as u64, run as u64, &t) else {
                tally.bump("scenarios_without_free_start", 1);
                continue;
            };
            tally.bump(&format!("layout_{layout}"), 1);
            let robot = Arc::new(case.cell.build_probed_robot());
            let scen_hash = simctx::name_hash(&serde_json::to_string(&(&case.cell, &case.from, &case.land, &case.steps, &case.park)).unwrap());
            let mut sample: Option<Value> = None;
            let mut any_ok = false;
            let mut guided: Vec<Case> = Vec::new();
            let fails = judge_with(&case, &robot, &mut |ci, out| {
                tally.evaluations += 1;
                if ci <= 1 && ci < case.cfgs.len() && guided.len() < 2 {
                    guided.extend(guided_cases(&case, ci, out));
                }
                let c = &out.counters;
                tally.bump("sched_steps", c.steps);
                tally.max("max_sched_steps_in_one_execution", c.steps);
                tally.bump("sched_branching_points", c.branching);
                tally.max("max_runnable_tasks", c.max_runnable as u64);
                tally.bump("random_draws", c.n_rng);
                tally.bump("clock_reads", c.n_clock_reads);
                tally.bump("fault_clock_leap_fired", c.n_clock_jumps_fired);
                tally.bump("simulated_time_us", c.clock_ns.saturating_sub(1_000_000_000) / 1000);
                tally.bump("par_calls", c.n_par_calls);
                tally.bump("work_steals_while_blocked_ran", c.n_steals_ran);
                tally.bump("par_calls_multiworker", c.n_par_multiworker);
                tally.bump("find_any_races", c.n_find_any_races);
                tally.bump("find_any_races_with_several_hits", c.n_find_any_multi);
                let this_cfg = if ci < case.cfgs.len() { &case.cfgs[ci] } else { &case.cfgs_other_rng[ci - case.cfgs.len()] };
                tally.bump(&format!("pool_size_{:02}", this_cfg.pool), 1);
                if ci >= case.cfgs.len() {
                    tally.bump("repeated_runs_with_other_random_outcomes", 1);
                }
                if let SchedSpec::Seeded { flavour: sim::Flavour::Starve(_), .. } = &this_cfg.sched {
                    tally.bump("fault_starved_strategy_or_worker", 1);
                }
                if c.branching > 0 {
                    tally.distinct.insert(((scen_hash as u128) << 64) | c.sched_sig as u128);
                }
                if let Ok(o) = &out.result {
                    tally.bump("seam_ik_queries", o.trace.iks);
                    tally.bump("seam_collision_checks", o.trace.collisions);
                    tally.bump("seam_rrt_samples", o.trace.samples);
                    match &o.result {
                        Ok(p) => {
                            any_ok = true;
                            tally.bump("plans_ok", 1);
                            tally.bump(&format!("plans_ok_{layout}"), 1);
                            tally.bump("waypoints", p.len() as u64);
                            let li = p.iter().position(|w| w.1 & F_LAND != 0).unwrap_or(0);
                            match gap_closing(&o.trace, &p[li].0) {
                                Some(true) => tally.bump("plans_ok_with_rrt_gap_closing", 1),
                                Some(false) => tally.bump("plans_ok_purely_cartesian_stroke", 1),
                                None => tally.bump("plans_ok_strategy_events_not_identified", 1),
                            }
                            if sample.is_none() {
                                sample = Some(json!({
                                    "layout": layout, "from": case.from, "land": case.land, "n_steps": case.steps.len(),
                                    "check_step_m": case.check_step_m, "max_transition_cost": case.max_transition_cost,
                                    "recursion_depth": case.recursion_depth, "include_linear_interpolation": case.include_lin,
                                    "pool": this_cfg.pool, "sched": format!("{:?}", this_cfg.sched),
                                    "waypoints": p.len(), "flags": p.iter().map(|w| w.1).collect::<Vec<_>>(),
                                    "seam_events": {"ik": o.trace.iks, "collision_checks": o.trace.collisions, "rrt_samples": o.trace.samples},
                                    "schedule_prefix": out.schedule.iter().take(24).collect::<Vec<_>>(),
                                    "log_hash": out.log.hex(),
                                }));
                            }
                        }
                        Err(e) => {
                            tally.bump("plans_err", 1);
                            let kind = if e.contains("collides") {
                                "plans_err_start_collides"
                            } else if e.contains("Unable to start") {
                                "plans_err_no_landing_solution"
                            } else {
                                "plans_err_no_strategy_worked"
                            };
                            tally.bump(kind, 1);
                        }
                    }
                }
            });
            if let Some(s) = sample {
                if tally.samples.len() < 2 {
                    tally.samples.push(s);
                }
            }
            if any_ok {
                tally.bump(&format!("scenarios_with_a_successful_plan_{layout}"), 1);
            }
            let mut seen = BTreeSet::new();
            for g in guided {
                tally.bump("fault_obstacle_placed_on_unchecked_waypoint", 1);
                tally.evaluations += 1;
                for f in judge(&g) {
                    if !seen.insert((f.clause.clone(), f.signature.clone())) || !tally.first_few(&f.clause, &f.signature, 2) {
                        continue;
                    }
                    tally.bump("raw_failures", 1);
                    tally.violations.push(Violation {
                        property: "C12".into(),
                        clause: f.clause.clone(),
                        signature: f.signature.clone(),
                        detail: format!("{} [obstacle placed at a waypoint the planner never collision-checked]", f.detail),
                        case: json!({"check": "C12", "case": g}),
                        origin: Some((shard, run)),
                    });
                }
            }
            for f in fails {
                if !seen.insert((f.clause.clone(), f.signature.clone())) || !tally.first_few(&f.clause, &f.signature, 2) {
                    continue;
                }
                tally.bump("raw_failures", 1);
                let mut small = case.clone();
                if f.cfgs.iter().all(|&i| i < case.cfgs.len()) {
                    small.cfgs = f.cfgs.iter().map(|&i| case.cfgs[i].clone()).collect();
                    small.cfgs_other_rng.clear();
                } else {
                    small.cfgs = vec![case.cfgs_other_rng[f.cfgs[0] - case.cfgs.len()].clone()];
                    small.cfgs_other_rng.clear();
                }
                let has = |c: &Case| judge(c).iter().any(|g| g.clause == f.clause && g.signature == f.signature);
                let start = if has(&small) { small } else { case.clone() };
                let min = minimise_case(&start, &f.clause, &f.signature);
                let detail = judge(&min).into_iter().find(|g| g.clause == f.clause && g.signature == f.signature).map(|g| g.detail).unwrap_or(f.detail.clone());
                tally.violations.push(Violation {
                    property: "C12".into(),
                    clause: f.clause.clone(),
                    signature: f.signature.clone(),
                    detail,
                    case: json!({"check": "C12", "case": min}),
                    origin: Some((shard, run)),
                });
            }
        }
        tally
    });
    let wall = started.elapsed().as_secs_f64();
    let mut tally = tally;
    if tally.counters.get("plans_ok_free").copied().unwrap_or(0) == 0 && tally.evaluations > 50 {
        tally.harness_errors.push("no plan succeeded in a free layout: the workload does not exercise the property".into());
    }
    let meta = CheckMeta {
        property: "C12",
        tier: if tier_name == "thorough" { "thorough" } else { "quick" },
        seed,
        level: "exploration",
        rule: "one evaluation = one simulated execution of Cartesian::plan (strategy race, adaptive linear transitions, RRT onboarding / gap closing with the shared stop flag) for one generated cell (free / grazing / blocking layout), start configuration, landing/stroke/parking poses and planner settings under one seeded schedule and pool size; the first configuration of every scenario is the sequential reference (pool 1). Random RRT samples come from the rand seam keyed by strategy, so they are identical across the schedules of one scenario. distinct_nontrivial counts distinct (scenario hash, schedule signature) pairs with at least one scheduling decision among >= 2 runnable tasks.",
        assumptions: vec![
            "forward kinematics of the harness-built stack, parry3d queries and the transition-cost formula as documented are trusted by the oracle; pose equality uses 3e-6 m / 3e-6 rad (the solver's own cross-check tolerance is 1e-6)".into(),
            "when the winning strategy re-planned inside the stroke with RRT (detected from its seam events) the flag-count, order and transition-cost clauses are relaxed, because such waypoints are joint-space moves by design".into(),
            "limits are non-wrapping with from != to; the limits clause is asserted for IK-produced (Cartesian) waypoints".into(),
        ],
        components: json!({
            "real": ["/repo/src/path_plan/cartesian.rs", "/repo/src/path_plan/rrt.rs", "/repo/src/path_plan/rrt_to.rs", "/repo/src/kinematics_with_shape.rs", "/repo/src/collisions.rs", "/repo/src/kinematics_impl.rs", "/repo/src/tool.rs", "/repo/src/constraints.rs", "kdtree", "parry3d"],
            "stub_contract_model": ["rayon (sim-rayon)", "rand (sim-rand)"],
            "simulator": ["shuttle tasks + opwsim SeededScheduler", "stop flag = shuttle AtomicBool through hook H1", "Probe (robot-model seam) for seam events"],
        }),
        exhaustive: false,
    };
    report::finish(meta, tally, wall, &|v| replay_all(&v["case"]), &|shard, run| case_json(tier_name, seed, shard, run))
}


pub fn digest(seed: u64, i: u64) -> Vec<String> {
    let t = tier("quick");
    let Some((case, _)) = gen_case(seed, 9000 + i % 5, i, &t) else { return vec![format!("C12 {i} - no-case")] };
    let robot = Arc::new(case.cell.build_probed_robot());
    case.cfgs
        .iter()
        .enumerate()
        .map(|(j, cfg)| {
            let out = execute(&robot, &case, cfg);
            let res = out.result.as_ref().map(|o| format!("{:?} {:?}", o.result, o.trace.events.len()));
            format!("C12 {i} {j} {} {:016x} {}", out.log.hex(), simctx::name_hash(&format!("{res:?}")), out.schedule.len())
        })
        .collect()
}

pub fn case_json(tier_name: &str, seed: u64, shard: usize, run: usize) -> Option<Value> {
    let t = tier(tier_name);
    gen_case(seed, shard as u64, run as u64, &t).map(|(c, _)| json!({"check": "C12", "case": c}))
}
