//! C11 — collision-aware IK returns exactly the non-colliding solutions of the underlying
//! stack, in order, whatever the schedule of the per-solution collision race; delegated queries
//! are those of the underlying stack.

use crate::cell::*;
use crate::gen::{self, CellKnobs, LimitKind};
use crate::minimise;
use crate::oracle;
use crate::report::{self, CheckMeta, Tally, Violation};
use crate::sim::{self, Abort, SchedSpec, SimCfg, SimOut};
use nalgebra::{Isometry3, Quaternion, Translation3, UnitQuaternion};
use rs_opw_kinematics::kinematic_traits::{Kinematics, Pose};
use rs_opw_kinematics::kinematics_with_shape::KinematicsWithShape;
use serde::{Deserialize, Serialize};
use serde_json::{json, Value};
use simctx::Rng;
use std::collections::BTreeSet;
use std::sync::Arc;

#[derive(Clone, Debug, Serialize, Deserialize)]
pub struct Query {
    /// tx, ty, tz, qw, qi, qj, qk
    pub pose: [f64; 7],
    /// previous joints; `[NaN, 0, 0, 0, 0, 0]` is CONSTRAINT_CENTERED
    pub prev: [Option<f64>; 6],
    pub j6: f64,
    /// joint vector for the delegated queries
    pub q: [f64; 6],
}

impl Query {
    pub fn pose(&self) -> Pose {
        let p = &self.pose;
        Isometry3::from_parts(
            Translation3::new(p[0], p[1], p[2]),
            UnitQuaternion::from_quaternion(Quaternion::new(p[3], p[4], p[5], p[6])),
        )
    }
    pub fn prev(&self) -> [f64; 6] {
        std::array::from_fn(|i| self.prev[i].unwrap_or(f64::NAN))
    }
}

#[derive(Clone, Debug, Serialize, Deserialize)]
pub struct Case {
    pub cell: CellSpec,
    pub queries: Vec<Query>,
    pub cfgs: Vec<SimCfg>,
    /// history: after the executions above, the SAME robot object is re-configured through its
    /// public fields (new safety table, last environment body removed) and queried again
    #[serde(default)]
    pub reconfigure: Option<Reconf>,
    /// > 1: the queries are issued by that many concurrent simulated caller tasks sharing the robot
    #[serde(default)]
    pub clients: usize,
    /// the queries are the items of a parallel iterator: every request is made BY a pool worker
    /// while other requests wait in the same pool (an application that solves IK for many poses
    /// in its own `par_iter`); a worker waiting for its inner collision check runs them meanwhile
    #[serde(default)]
    pub via_pool: bool,
    /// requests are issued in reverse order (last query first, last entry point first). Set for
    /// the phase after a reconfiguration: its first request is then identical to the last request
    /// made before the robot was re-configured
    #[serde(default)]
    pub reverse: bool,
}

#[derive(Clone, Debug, Serialize, Deserialize)]
pub struct Reconf {
    pub safety: SafetySpec,
    pub drop_last_env: bool,
}

type Sols = Vec<[f64; 6]>;

#[derive(Clone, Debug, PartialEq)]
pub struct QObs {
    pub sols: [Sols; 4],
    /// `collides()` of the same robot for every returned solution of the four entry points
    pub reported: [Vec<bool>; 4],
    /// bit patterns of everything the delegated queries returned
    pub delegated: Vec<u64>,
    /// positioned_robot: link transforms, tool transform, env poses (bits), vertex counts
    pub positioned: Vec<u64>,
}

#[derive(Clone, Debug)]
pub struct Fail {
    pub clause: String,
    pub signature: String,
    pub detail: String,
    pub q: usize,
    pub cfgs: Vec<usize>,
}

const ENTRY: [&str; 4] = ["inverse", "inverse_continuing", "inverse_5dof", "inverse_continuing_5dof"];

fn iso_bits(p: &Isometry3<f64>, out: &mut Vec<u64>) {
    for v in [p.translation.x, p.translation.y, p.translation.z, p.rotation.w, p.rotation.i, p.rotation.j, p.rotation.k] {
        out.push(v.to_bits());
    }
}
fn iso32_bits(p: &Isometry3<f32>, out: &mut Vec<u64>) {
    for v in [p.translation.x, p.translation.y, p.translation.z, p.rotation.w, p.rotation.i, p.rotation.j, p.rotation.k] {
        out.push(v.to_bits() as u64);
    }
}

fn entry(k: &dyn Kinematics, which: usize, q: &Query) -> Sols {
    match which {
        0 => k.inverse(&q.pose()),
        1 => k.inverse_continuing(&q.pose(), &q.prev()),
        2 => k.inverse_5dof(&q.pose(), q.j6),
        _ => k.inverse_continuing_5dof(&q.pose(), &q.prev()),
    }
}

fn delegated(k: &dyn Kinematics, q: &[f64; 6]) -> Vec<u64> {
    let mut out = Vec::new();
    iso_bits(&k.forward(q), &mut out);
    for p in k.forward_with_joint_poses(q) {
        iso_bits(&p, &mut out);
    }
    out.push(match k.kinematic_singularity(q) {
        None => 0,
        Some(_) => 1,
    });
    match k.constraints() {
        None => out.push(0),
        Some(c) => {
            out.push(1);
            for arr in [&c.from, &c.to, &c.centers, &c.tolerances] {
                for v in arr.iter() {
                    out.push(v.to_bits());
                }
            }
            out.push(c.sorting_weight.to_bits());
        }
    }
    out
}

fn mesh_bits(m: &parry3d::shape::TriMesh, out: &mut Vec<u64>) {
    out.push(m.vertices().len() as u64);
    out.push(m.indices().len() as u64);
    let mut h = 0u64;
    for v in m.vertices() {
        for c in [v.x, v.y, v.z] {
            let mut s = h ^ c.to_bits() as u64;
            h = simctx::splitmix64(&mut s);
        }
    }
    out.push(h);
}

fn one_query(robot: &KinematicsWithShape, q: &Query, reverse: bool) -> QObs {
    let sols: [Sols; 4] = if reverse {
        let mut rev: Vec<Sols> = (0..4).rev().map(|w| entry(robot, w, q)).collect();
        rev.reverse();
        rev.try_into().unwrap_or_else(|_| unreachable!())
    } else {
        std::array::from_fn(|w| entry(robot, w, q))
    };
    let reported: [Vec<bool>; 4] = std::array::from_fn(|w| sols[w].iter().map(|s| robot.collides(s)).collect());
    let deleg = delegated(robot, &q.q);
    let mut pos = Vec::new();
    let pr = robot.positioned_robot(&q.q);
    pos.push(pr.joints.len() as u64);
    for j in &pr.joints {
        iso32_bits(&j.transform, &mut pos);
        mesh_bits(j.joint_body, &mut pos);
    }
    match &pr.tool {
        None => pos.push(0),
        Some(t) => {
            pos.push(1);
            iso32_bits(&t.transform, &mut pos);
            mesh_bits(t.joint_body, &mut pos);
        }
    }
    pos.push(pr.environment.len() as u64);
    for e in &pr.environment {
        iso32_bits(&e.pose, &mut pos);
        mesh_bits(&e.mesh, &mut pos);
    }
    QObs { sols, reported, delegated: deleg, positioned: pos }
}

fn execute(robot: &Arc<KinematicsWithShape>, case: &Case, cfg: &SimCfg) -> SimOut<Vec<QObs>> {
    report::progress_case(|| { let mut c = case.clone(); c.cfgs = vec![cfg.clone()]; c.reconfigure = None; json!({"check": "C11", "case": c}) });
    let robot = robot.clone();
    let queries = case.queries.clone();
    let clients = case.clients.max(1);
    let reverse = case.reverse;
    let via_pool = case.via_pool;
    sim::simulate(cfg, move || {
        if via_pool {
            use sim_rayon::prelude::*;
            let n = queries.len();
            let slots: std::sync::Mutex<Vec<Option<QObs>>> = std::sync::Mutex::new(vec![None; n]);
            (0..n).into_par_iter().for_each(|i| {
                let o = one_query(robot.as_ref(), &queries[i], reverse);
                slots.lock().unwrap()[i] = Some(o);
            });
            return slots.into_inner().unwrap().into_iter().map(|o| o.expect("pool job did not deliver")).collect();
        }
        if clients <= 1 {
            if reverse {
                let mut out: Vec<QObs> = queries.iter().rev().map(|q| one_query(robot.as_ref(), q, true)).collect();
                out.reverse();
                return out;
            }
            return queries.iter().map(|q| one_query(robot.as_ref(), q, false)).collect();
        }
        // concurrent callers: every caller issues ALL queries (so that identical work overlaps),
        // caller 0's answers are the observed ones, the others' must be identical to them
        let slots: Arc<std::sync::Mutex<Vec<Vec<QObs>>>> = Arc::new(std::sync::Mutex::new(vec![Vec::new(); clients]));
        let mut hs = Vec::new();
        for c in 0..clients {
            let (robot, queries, slots) = (robot.clone(), queries.clone(), slots.clone());
            hs.push(shuttle::thread::spawn(move || {
                // callers start at different queries so that different requests overlap
                let n = queries.len();
                let mut mine: Vec<Option<QObs>> = vec![None; n];
                for k in 0..n {
                    let i = (k + c) % n;
                    mine[i] = Some(one_query(robot.as_ref(), &queries[i], reverse));
                }
                slots.lock().unwrap()[c] = mine.into_iter().map(|o| o.unwrap()).collect();
            }));
        }
        for h in hs {
            h.join().unwrap();
        }
        let all = slots.lock().unwrap().clone();
        // fold: if any caller disagrees with caller 0 on the solution lists, expose the
        // disagreeing answer so that the judge sees it
        let mut out = all[0].clone();
        for c in 1..clients {
            for i in 0..out.len() {
                if all[c][i].sols != out[i].sols {
                    out[i] = all[c][i].clone();
                }
            }
        }
        out
    })
}

fn same(a: &[f64; 6], b: &[f64; 6]) -> bool {
    a.iter().zip(b).all(|(x, y)| x.to_bits() == y.to_bits())
}

#[derive(Clone, Copy, PartialEq, Eq, Debug)]
enum Want {
    Keep,
    Drop,
    Either,
}

pub fn judge(case: &Case) -> Vec<Fail> {
    let mut robot = Arc::new(case.cell.build_robot());
    judge_with(case, &mut robot, &mut |_, _| {}, &mut |_, _, _| {})
}

fn judge_with(
    case: &Case,
    robot: &mut Arc<KinematicsWithShape>,
    observe: &mut dyn FnMut(usize, &SimOut<Vec<QObs>>),
    stats: &mut dyn FnMut(usize, usize, usize),
) -> Vec<Fail> {
    let mut fails = judge_phase(case, robot, observe, stats, "");
    if let Some(rc) = &case.reconfigure {
        // phase 2: re-configure the same object in place and ask again
        let mut cell2 = case.cell.clone();
        cell2.safety = rc.safety.clone();
        if rc.drop_last_env && !cell2.env.is_empty() {
            cell2.env.pop();
            let n = cell2.env.len();
            cell2.safety.special.retain(|s| (s.0 as usize) < ENV0 + n && (s.1 as usize) < ENV0 + n);
        }
        if let Some(r) = Arc::get_mut(robot) {
            r.body.safety = cell2.safety.build();
            if rc.drop_last_env && !case.cell.env.is_empty() {
                r.body.collision_environment.pop();
            }
            let case2 = Case { cell: cell2, queries: case.queries.clone(), cfgs: vec![case.cfgs[0].clone()], reconfigure: None, clients: case.clients, via_pool: case.via_pool, reverse: true };
            fails.extend(judge_phase(&case2, robot, &mut |_, out| observe(usize::MAX, out), &mut |_, _, _| {}, "/after-reconfiguration"));
        }
    }
    fails
}

fn judge_phase(
    case: &Case,
    robot: &Arc<KinematicsWithShape>,
    observe: &mut dyn FnMut(usize, &SimOut<Vec<QObs>>),
    stats: &mut dyn FnMut(usize, usize, usize),
    phase: &str,
) -> Vec<Fail> {
    let oc = OracleCell::new(&case.cell);
    let stack = oc.stack.clone();
    // reference: underlying stack's solutions + oracle verdict per solution
    let mut expected: Vec<[Vec<([f64; 6], Want)>; 4]> = Vec::new();
    let mut exp_deleg: Vec<Vec<u64>> = Vec::new();
    let mut exp_pos: Vec<Vec<u64>> = Vec::new();
    for q in &case.queries {
        let per: [Vec<([f64; 6], Want)>; 4] = std::array::from_fn(|w| {
            entry(stack.as_ref(), w, q)
                .into_iter()
                .map(|s| {
                    let want = if case.cell.safety.mode == Mode::NoCheck {
                        Want::Keep
                    } else {
                        let b = oracle::brute_q(&oc, &s, &case.cell.safety);
                        if b.any_definite() {
                            Want::Drop
                        } else if b.any_dont_care() {
                            Want::Either
                        } else {
                            Want::Keep
                        }
                    };
                    (s, want)
                })
                .collect()
        });
        for w in 0..4 {
            let keep = per[w].iter().filter(|x| x.1 == Want::Keep).count();
            let drop = per[w].iter().filter(|x| x.1 == Want::Drop).count();
            stats(per[w].len(), keep, drop);
        }
        expected.push(per);
        exp_deleg.push(delegated(stack.as_ref(), &q.q));
        // positioned robot from the spec
        let mut pos = Vec::new();
        let poses = oracle::link_poses(&oc, &q.q);
        pos.push(6);
        for i in 0..6 {
            iso32_bits(&poses[i], &mut pos);
            mesh_bits(&oc.links[i], &mut pos);
        }
        match &oc.tool {
            None => pos.push(0),
            Some(t) => {
                pos.push(1);
                iso32_bits(&poses[5], &mut pos);
                mesh_bits(t, &mut pos);
            }
        }
        pos.push(oc.env.len() as u64);
        for (m, p) in &oc.env {
            iso32_bits(p, &mut pos);
            mesh_bits(m, &mut pos);
        }
        exp_pos.push(pos);
    }

    let mut fails = Vec::new();
    let mut all: Vec<(usize, Vec<QObs>)> = Vec::new();
    for (ci, cfg) in case.cfgs.iter().enumerate() {
        let out = execute(robot, case, cfg);
        observe(ci, &out);
        let obs = match &out.result {
            Err(abort) => {
                let (clause, msg) = match abort {
                    Abort::Panic(m) => ("f:panic", m.clone()),
                    Abort::Deadlock(m) => ("f:deadlock", m.clone()),
                    Abort::StepLimit(m) => ("f:step-limit", m.clone()),
                };
                fails.push(Fail { clause: clause.into(), signature: format!("C11/{clause}"), detail: msg, q: 0, cfgs: vec![ci] });
                continue;
            }
            Ok(o) => o.clone(),
        };
        for (qi, o) in obs.iter().enumerate() {
            for w in 0..4 {
                let exp = &expected[qi][w];
                let got = &o.sols[w];
                let mut p = 0;
                for (k, (s, want)) in exp.iter().enumerate() {
                    if p < got.len() && same(&got[p], s) {
                        p += 1;
                        if *want == Want::Drop {
                            fails.push(Fail {
                                clause: format!("a:kept-colliding{phase}"),
                                signature: format!("C11/{}/kept-colliding{phase}", ENTRY[w]),
                                detail: format!("{} returned solution #{k} of the underlying stack although it collides (query #{qi})", ENTRY[w]),
                                q: qi,
                                cfgs: vec![ci],
                            });
                        }
                    } else if *want == Want::Keep {
                        fails.push(Fail {
                            clause: format!("a:dropped-free{phase}"),
                            signature: format!("C11/{}/dropped-free{phase}", ENTRY[w]),
                            detail: format!("{} dropped (or reordered) solution #{k} of the underlying stack although it is collision-free (query #{qi}); underlying has {}, returned {}", ENTRY[w], exp.len(), got.len()),
                            q: qi,
                            cfgs: vec![ci],
                        });
                    }
                }
                if p < got.len() {
                    fails.push(Fail {
                        clause: format!("a:not-a-solution{phase}"),
                        signature: format!("C11/{}/not-a-solution{phase}", ENTRY[w]),
                        detail: format!("{} returned vector #{p} {:?} which is not the next solution of the underlying stack (foreign value, wrong order or duplicate) (query #{qi})", ENTRY[w], got[p]),
                        q: qi,
                        cfgs: vec![ci],
                    });
                }
            }
            for w in 0..4 {
                if let Some(k) = o.reported[w].iter().position(|r| *r) {
                    // unless the oracle itself sees a don't-care pair there
                    let b = oracle::brute_q(&oc, &o.sols[w][k], &case.cell.safety);
                    if !b.any_dont_care() {
                        fails.push(Fail {
                            clause: format!("a:returned-but-reported-colliding{phase}"),
                            signature: format!("C11/{}/returned-but-reported-colliding{phase}", ENTRY[w]),
                            detail: format!("{} returned solution #{k} although collides() of the same robot reports it colliding (query #{qi})", ENTRY[w]),
                            q: qi,
                            cfgs: vec![ci],
                        });
                    }
                }
            }
            // the body meshes are placed at link poses that are genuine forward kinematics
            if qi == 0 && ci == 0 && case.queries[qi].q.iter().all(|x| x.is_finite() && x.abs() < 50.0) {
                let reported = robot.kinematics.forward_with_joint_poses(&case.queries[qi].q);
                let (dt, dr) = oracle::placement_error(&case.cell, &reported, &case.queries[qi].q);
                if dt > 1e-9 || dr > 1e-8 {
                    fails.push(Fail {
                        clause: format!("d:link-placement{phase}"),
                        signature: format!("C11/link-placement{phase}"),
                        detail: format!("the link poses at which the meshes are placed deviate from forward kinematics of the OPW geometry by {dt:.3e} m / {dr:.3e} rad"),
                        q: qi,
                        cfgs: vec![ci],
                    });
                }
            }
            if o.delegated != exp_deleg[qi] {
                let first = o.delegated.iter().zip(&exp_deleg[qi]).position(|(a, b)| a != b).unwrap_or(0);
                let what = match first {
                    0..=6 => "forward",
                    7..=48 => "forward_with_joint_poses",
                    49 => "kinematic_singularity",
                    _ => "constraints",
                };
                fails.push(Fail {
                    clause: "c:delegated-differs".into(),
                    signature: format!("C11/delegated/{what}"),
                    detail: format!("{what} of the robot with shape differs from the underlying stack (query #{qi}, word {first})"),
                    q: qi,
                    cfgs: vec![ci],
                });
            }
            if o.positioned != exp_pos[qi] {
                fails.push(Fail {
                    clause: "d:positioned-robot".into(),
                    signature: "C11/positioned-robot".into(),
                    detail: format!("positioned_robot does not place the given meshes at the link poses / tool at pose 6 / environment in order (query #{qi})"),
                    q: qi,
                    cfgs: vec![ci],
                });
            }
        }
        all.push((ci, obs));
    }
    if all.len() >= 2 {
        let (i0, o0) = &all[0];
        for (ik, ok) in &all[1..] {
            for qi in 0..o0.len().min(ok.len()) {
                // identical across schedules, except for solutions the oracle marks "either"
                let either = |w: usize| expected[qi][w].iter().any(|x| x.1 == Want::Either);
                let differs = (0..4).any(|w| !either(w) && o0[qi].sols[w] != ok[qi].sols[w])
                    || o0[qi].delegated != ok[qi].delegated
                    || o0[qi].positioned != ok[qi].positioned;
                if differs {
                    fails.push(Fail {
                        clause: "b:schedule-dependent".into(),
                        signature: "C11/schedule-dependent".into(),
                        detail: format!("query #{qi}: results differ between schedules / pool sizes"),
                        q: qi,
                        cfgs: vec![*i0, *ik],
                    });
                }
            }
        }
    }
    fails
}

fn simplifications(case: &Case) -> Vec<Case> {
    let mut out = Vec::new();
    if case.reconfigure.is_some() {
        let mut c = case.clone();
        c.reconfigure = None;
        out.push(c);
    }
    if case.clients > 1 {
        let mut c = case.clone();
        c.clients = 1;
        out.push(c);
    }
    if case.via_pool {
        let mut c = case.clone();
        c.via_pool = false;
        out.push(c);
    }
    if case.queries.len() > 1 {
        for i in 0..case.queries.len() {
            let mut c = case.clone();
            c.queries = vec![case.queries[i].clone()];
            out.push(c);
        }
    }
    if case.cfgs.len() > 2 {
        for i in 0..case.cfgs.len() {
            let mut c = case.clone();
            c.cfgs.remove(i);
            out.push(c);
        }
    }
    for k in 0..case.cell.env.len() {
        let mut c = case.clone();
        c.cell.env.remove(k);
        c.cell.safety.special.retain(|s| s.0 as usize != ENV0 + k && s.1 as usize != ENV0 + k);
        for s in c.cell.safety.special.iter_mut() {
            if s.0 as usize > ENV0 + k {
                s.0 -= 1;
            }
            if s.1 as usize > ENV0 + k {
                s.1 -= 1;
            }
        }
        out.push(c);
    }
    for i in 0..case.cell.safety.special.len() {
        let mut c = case.clone();
        c.cell.safety.special.remove(i);
        out.push(c);
    }
    for i in 0..case.cfgs.len() {
        for s in minimise::simpler_cfgs(&case.cfgs[i]) {
            let mut c = case.clone();
            c.cfgs[i] = s;
            out.push(c);
        }
    }
    out
}

fn minimise_case(case: &Case, clause: &str, signature: &str) -> Case {
    let mut still = |c: &Case| judge(c).iter().any(|f| f.clause == clause && f.signature == signature);
    let mut cur = minimise::greedy(case.clone(), &simplifications, &mut still, 80);
    for i in 0..cur.cfgs.len() {
        let robot = Arc::new(cur.cell.build_robot());
        let out = execute(&robot, &cur, &cur.cfgs[i]);
        let mut trial = cur.clone();
        trial.cfgs[i] = minimise::with_replay(&cur.cfgs[i], out.schedule.clone(), Some(out.rng_record.clone()));
        if !still(&trial) {
            continue;
        }
        let base = trial.clone();
        let shrunk = minimise::shrink_schedule(
            &out.schedule,
            &mut |l: &[u32]| {
                let mut t = base.clone();
                t.cfgs[i].sched = SchedSpec::Replay(l.to_vec());
                still(&t)
            },
            40,
        );
        trial.cfgs[i].sched = SchedSpec::Replay(shrunk);
        cur = trial;
    }
    cur
}

pub fn replay_all(case: &Value) -> Vec<(String, String)> {
    match serde_json::from_value::<Case>(case.clone()) {
        Ok(c) => judge(&c).into_iter().map(|f| (f.clause, f.detail)).collect(),
        Err(e) => vec![("harness:bad-case".into(), e.to_string())],
    }
}

pub struct Tier {
    pub shards: usize,
    pub per_shard: usize,
    pub schedules: usize,
    pub max_sub: u8,
}

pub fn tier(name: &str) -> Tier {
    match name {
        "thorough" => Tier { shards: 256, per_shard: 150, schedules: 8, max_sub: 5 },
        "smoke" => Tier { shards: 4, per_shard: 8, schedules: 3, max_sub: 3 },
        _ => Tier { shards: 32, per_shard: 40, schedules: 3, max_sub: 3 },
    }
}

fn pose_numbers(p: &Pose) -> [f64; 7] {
    [p.translation.x, p.translation.y, p.translation.z, p.rotation.w, p.rotation.i, p.rotation.j, p.rotation.k]
}

pub fn gen_case(seed: u64, shard: u64, run: u64, t: &Tier) -> Case {
    let mut w = Rng::derive(seed, shard, run, "c11.workload");
    let mut knobs = Rng::derive(seed, shard, run, "c11.knobs");
    let ctor = match knobs.below(4) {
        0 => Ctor::New(true),
        1 => Ctor::New(false),
        2 => Ctor::WithSafety,
        _ => Ctor::Direct,
    };
    let k = CellKnobs {
        tool_p: 0.8,
        base_p: 0.8,
        max_env: if knobs.chance(0.09) { 12 } else { 3 },
        max_sub: t.max_sub,
        limits: match (ctor, knobs.below(4)) {
            (Ctor::Direct, 0) => LimitKind::None,
            (_, 1) => LimitKind::Narrow,
            (_, 2) => LimitKind::Wrapping,
            _ => LimitKind::Wide,
        },
        ctor,
        touch_only: matches!(ctor, Ctor::New(_)),
        sparse: knobs.chance(0.6),
    };
    let mut cell = gen::gen_robot(&mut w, &k);
    if ctor == Ctor::Direct {
        // assembled from public fields, the kinematics can be any `Kinematics`: a parallelogram
        // linkage around the stack now and then
        let mut pk = Rng::derive(seed, shard, run, "c11.parallelogram");
        if pk.chance(0.25) {
            let scaling = *pk.pick(&[1.0, 1.0, 0.5, -1.0]);
            let (driven, coupled) = if pk.chance(0.7) { (1usize, 2usize) } else { *pk.pick(&[(2usize, 1usize), (1, 4), (3, 5)]) };
            cell.parallelogram = Some((scaling, driven, coupled));
        }
    }
    {
        // a base and / or tool transform that is a pure rotation (a ceiling-mounted robot above
        // the origin, a turned gripper with the tool centre point on the flange)
        let mut tf = Rng::derive(seed, shard, run, "c11.pure-rotation");
        if tf.chance(0.12) {
            if let Some(b) = cell.base_tf.as_mut() {
                if tf.chance(0.7) {
                    b.t = [0.0; 3];
                    if b.rpy == [0.0; 3] {
                        b.rpy = [std::f64::consts::PI, 0.0, tf.range_f64(-1.0, 1.0)];
                    }
                }
            }
            if let Some(tl) = cell.tool_tf.as_mut() {
                if tf.chance(0.7) {
                    tl.t = [0.0; 3];
                    if tl.rpy == [0.0; 3] {
                        tl.rpy = [tf.range_f64(-0.5, 0.5), tf.range_f64(-0.5, 0.5), tf.range_f64(-3.0, 3.0)];
                    }
                }
            }
        }
    }
    cell.safety = match ctor {
        Ctor::New(first) => SafetySpec::touch(if first { Mode::First } else { Mode::All }),
        _ => gen::gen_safety(&mut w, cell.tool.is_some(), cell.base.is_some(), k.max_env, false, k.sparse),
    };
    if !matches!(ctor, Ctor::New(_)) {
        // the robot gets a CLONE of the table now and then; and per-pair entries whose value
        // happens to equal one of the two defaults (an entry is an entry: for a part / obstacle
        // pair the default it overrides is the environment distance, not the robot one). They are
        // put in BEFORE the obstacles are placed, so that grazing obstacles graze at that distance.
        let mut cs = Rng::derive(seed, shard, run, "c11.safety-clone");
        cell.clone_safety = cs.chance(0.3);
        if cs.chance(0.3) && cell.safety.to_robot > NEVER && cell.safety.to_env > NEVER {
            // every robot part against the first one or two obstacles
            let mut parts: Vec<usize> = (0..6).collect();
            if cell.tool.is_some() {
                parts.push(J_TOOL);
            }
            for o in 0..cs.range_usize(1, 2) {
                let obj = ENV0 + o;
                let v = if cs.chance(0.7) { cell.safety.to_robot } else { cell.safety.to_env };
                for &part in &parts {
                    cell.safety.special.retain(|e| !((e.0 as usize, e.1 as usize) == (part, obj) || (e.0 as usize, e.1 as usize) == (obj, part)));
                    cell.safety.special.push((part as u16, obj as u16, v));
                }
            }
        }
    }
    let anchor = gen::gen_posture(&mut w, &cell.limits);
    gen::add_environment(&mut w, &mut cell, &anchor, &k);
    if matches!(ctor, Ctor::New(_)) {
        // `new` has no table: undo the pair entries add_environment may have created
        cell.safety.special.clear();
    }
    let n_env = cell.env.len();
    cell.safety.special.retain(|s| (s.0 as usize) < ENV0 + n_env && (s.1 as usize) < ENV0 + n_env);
    let stack = cell.reference_stack();
    let n_q = w.range_usize(1, 4);
    let mut queries = Vec::new();
    for i in 0..n_q {
        let q = if i == 0 { anchor } else { gen::gen_posture(&mut w, &cell.limits) };
        let pose = if w.chance(0.08) {
            // unreachable
            let mut p = stack.forward(&q);
            p.translation.x += 25.0;
            p
        } else {
            stack.forward(&q)
        };
        let prev: [Option<f64>; 6] = match w.below(4) {
            0 => [None, Some(0.0), Some(0.0), Some(0.0), Some(0.0), Some(0.0)],
            1 => std::array::from_fn(|j| Some(q[j])),
            _ => std::array::from_fn(|j| Some(q[j] + w.range_f64(-0.3, 0.3))),
        };
        let pn = pose_numbers(&pose);
        queries.push(Query { pose: pn, prev, j6: w.range_f64(-3.0, 3.0), q: gen::gen_posture(&mut w, &cell.limits) });
    }
    let mut cfgs = Vec::new();
    for s in 0..t.schedules {
        let sched_seed = simctx::mix(&[seed, shard, run, s as u64, simctx::name_hash("c11.sched")]);
        cfgs.push(SimCfg::swarm(&mut knobs, sched_seed, 0, 400_000));
    }
    let reconfigure = if !matches!(ctor, Ctor::New(_)) && knobs.chance(0.5) {
        let mut t = gen::gen_safety(&mut w, cell.tool.is_some(), cell.base.is_some(), n_env, false, knobs.chance(0.5));
        t.special.retain(|s| (s.0 as usize) < ENV0 + n_env && (s.1 as usize) < ENV0 + n_env);
        // half of the time the SAME table retuned (same keys, same counts, other values)
        let same_shape = knobs.chance(0.5);
        if same_shape {
            t = gen::retune_safety(&mut w, &cell.safety);
        }
        Some(Reconf { safety: t, drop_last_env: !same_shape && knobs.chance(0.4) })
    } else {
        None
    };
    let clients = if knobs.chance(0.3) { knobs.range_usize(2, 3) } else { 1 };
    // requests made by pool workers (a fifth of the single-caller scenarios)
    let via_pool = clients == 1 && Rng::derive(seed, shard, run, "c11.via-pool").chance(0.2);
    Case { cell, queries, cfgs, reconfigure, clients, via_pool, reverse: false }
}

pub fn run(tier_name: &str, seed: u64) -> i32 {
    let t = tier(tier_name);
    let started = std::time::Instant::now();
    let tally = report::run_shards(t.shards, |shard| {
        let mut tally = Tally::default();
        for run in 0..t.per_shard {
            report::progress(shard, run);
            let case = gen_case(seed, shard as u64, run as u64, &t);
            tally.bump(&format!("ctor_{:?}", case.cell.ctor).to_lowercase().replace(['(', ')'], "_"), 1);
            let mut robot = Arc::new(case.cell.build_robot());
            if case.via_pool {
                tally.bump("scenarios_with_requests_made_by_pool_workers", 1);
            }
            if case.clients > 1 {
                tally.bump("scenarios_with_concurrent_callers", 1);
            }
            let scen_hash = simctx::name_hash(&serde_json::to_string(&(&case.cell, &case.queries)).unwrap());
            let mut st: Vec<(String, u64)> = Vec::new();
            let mut sample: Option<Value> = None;
            let fails = judge_with(
                &case,
                &mut robot,
                &mut |ci, out| {
                    tally.evaluations += 1;
                    if ci == usize::MAX {
                        tally.bump("history_requery_after_reconfiguration", 1);
                        return;
                    }
                    let c = &out.counters;
                    tally.bump("sched_steps", c.steps);
                    tally.max("max_sched_steps_in_one_execution", c.steps);
                    tally.bump("sched_branching_points", c.branching);
                    tally.max("max_runnable_tasks", c.max_runnable as u64);
                    tally.bump("par_calls", c.n_par_calls);
                    tally.bump("work_steals_while_blocked_ran", c.n_steals_ran);
                    tally.bump("par_calls_multiworker", c.n_par_multiworker);
                    tally.bump("find_any_races", c.n_find_any_races);
                    tally.bump("find_any_races_with_several_hits", c.n_find_any_multi);
                    tally.bump(&format!("pool_size_{:02}", case.cfgs[ci].pool), 1);
                    if let SchedSpec::Seeded { flavour: sim::Flavour::Starve(_), .. } = &case.cfgs[ci].sched {
                        tally.bump("fault_starved_worker", 1);
                    }
                    if c.branching > 0 {
                        tally.distinct.insert(((scen_hash as u128) << 64) | c.sched_sig as u128);
                    }
                    if let Ok(obs) = &out.result {
                        if sample.is_none() && ci == 0 {
                            sample = Some(json!({
                                "ctor": format!("{:?}", case.cell.ctor), "pool": case.cfgs[ci].pool,
                                "sched": format!("{:?}", case.cfgs[ci].sched),
                                "query0": case.queries[0],
                                "returned_solutions": obs[0].sols.iter().map(|s| s.len()).collect::<Vec<_>>(),
                                "schedule_prefix": out.schedule.iter().take(24).collect::<Vec<_>>(),
                                "log_hash": out.log.hex(),
                            }));
                        }
                    }
                },
                &mut |n, keep, drop| {
                    st.push(("underlying_solutions".into(), n as u64));
                    st.push(("underlying_solutions_free".into(), keep as u64));
                    st.push(("underlying_solutions_colliding".into(), drop as u64));
                    st.push(("ik_calls".into(), 1));
                    if n == 0 {
                        st.push(("ik_calls_without_solution".into(), 1));
                    }
                },
            );
            for (k, v) in st {
                tally.bump(&k, v);
            }
            if let Some(s) = sample {
                if tally.samples.len() < 2 {
                    tally.samples.push(s);
                }
            }
            let mut seen = BTreeSet::new();
            for f in fails {
                if !seen.insert((f.clause.clone(), f.signature.clone())) || !tally.first_few(&f.clause, &f.signature, 2) {
                    continue;
                }
                tally.bump("raw_failures", 1);
                let mut small = case.clone();
                small.queries = vec![case.queries[f.q].clone()];
                small.cfgs = f.cfgs.iter().map(|&i| case.cfgs[i].clone()).collect();
                let has = |c: &Case| judge(c).iter().any(|g| g.clause == f.clause && g.signature == f.signature);
                let start = if has(&small) { small } else { case.clone() };
                let min = minimise_case(&start, &f.clause, &f.signature);
                let detail = judge(&min)
                    .into_iter()
                    .find(|g| g.clause == f.clause && g.signature == f.signature)
                    .map(|g| g.detail)
                    .unwrap_or(f.detail.clone());
                tally.violations.push(Violation {
                    property: "C11".into(),
                    clause: f.clause.clone(),
                    signature: f.signature.clone(),
                    detail,
                    case: json!({"check": "C11", "case": min}),
                    origin: Some((shard, run)),
                });
            }
        }
        tally
    });
    let wall = started.elapsed().as_secs_f64();
    let meta = CheckMeta {
        property: "C11",
        tier: if tier_name == "thorough" { "thorough" } else { "quick" },
        seed,
        level: "exploration",
        rule: "one evaluation = one simulated execution of all four inverse entry points plus the delegated queries and positioned_robot for 1-4 generated queries on one generated robot with shape (constructors new(first_only=true/false), with_safety, or public fields) under one seeded schedule and pool size; every returned list is compared with the harness-built underlying stack filtered by the brute-force oracle. distinct_nontrivial counts distinct (scenario hash, schedule signature) pairs with at least one scheduling decision among >= 2 runnable tasks.",
        assumptions: vec![
            "parry3d queries, forward_with_joint_poses and the underlying Tool{Base{OPWKinematics}} stack (properties C01-C09, not applicable here) are trusted by the oracle".into(),
            "rayon is a contract model (sim-rayon)".into(),
            "solutions with a pair inside the don't-care band may be present or absent".into(),
        ],
        components: json!({
            "real": ["/repo/src (kinematics_with_shape.rs, collisions.rs, kinematics_impl.rs, tool.rs, constraints.rs)", "parry3d", "nalgebra"],
            "stub_contract_model": ["rayon (sim-rayon)"],
            "simulator": ["shuttle tasks + opwsim SeededScheduler"],
        }),
        exhaustive: false,
    };
    report::finish(meta, tally, wall, &|v| replay_all(&v["case"]), &|shard, run| case_json(tier_name, seed, shard, run))
}


pub fn digest(seed: u64, i: u64) -> Vec<String> {
    let t = tier("quick");
    let case = gen_case(seed, 9000 + i % 5, i, &t);
    let robot = Arc::new(case.cell.build_robot());
    case.cfgs
        .iter()
        .enumerate()
        .map(|(j, cfg)| {
            let out = execute(&robot, &case, cfg);
            format!("C11 {i} {j} {} {:016x} {}", out.log.hex(), simctx::name_hash(&format!("{:?}", out.result)), out.schedule.len())
        })
        .collect()
}

pub fn case_json(tier_name: &str, seed: u64, shard: usize, run: usize) -> Option<Value> {
    let t = tier(tier_name);
    Some(json!({"check": "C11", "case": gen_case(seed, shard as u64, run as u64, &t)}))
}
