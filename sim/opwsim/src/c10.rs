//! C10 — collision verdicts equal a brute-force pairwise check at the safety distances, for every
//! schedule and pool size of the (simulated) rayon pool.

use crate::cell::*;
use crate::gen::{self, CellKnobs, LimitKind, Relation};
use crate::minimise;
use crate::oracle::{self, Brute};
use crate::report::{self, CheckMeta, Tally, Violation};
use crate::sim::{self, Abort, SchedSpec, SimCfg, SimOut};
use rs_opw_kinematics::kinematics_with_shape::KinematicsWithShape;
use serde::{Deserialize, Serialize};
use serde_json::{json, Value};
use simctx::Rng;
use std::collections::BTreeSet;
use std::sync::Arc;

#[derive(Clone, Debug, Serialize, Deserialize)]
pub struct Case {
    pub cell: CellSpec,
    /// table handed to `near` (None: `near` is not called)
    pub near: Option<SafetySpec>,
    pub qs: Vec<[f64; 6]>,
    /// one simulated execution per entry; cross-schedule clauses compare them
    pub cfgs: Vec<SimCfg>,
    /// > 1: the postures are queried by that many concurrent simulated caller tasks sharing the robot
    #[serde(default)]
    pub clients: usize,
    /// > 0: the postures are queried by that many jobs of a parallel iterator, i.e. the callers
    /// ARE pool workers (an application that checks candidates in its own `par_iter`): nested
    /// parallelism, `current_thread_index()` is Some, a worker waiting for its inner check runs
    /// other callers' jobs in the meantime
    #[serde(default)]
    pub via_pool: usize,
    /// history: afterwards the SAME robot object gets this safety table through its public field
    /// (and optionally loses its last environment body) and is queried again
    #[serde(default)]
    pub reconfigure: Option<Reconf>,
    /// a second robot with the same bodies and limits but another base placement; every posture is
    /// asked of the robot and then, by the same caller, of the sibling (whose answers are judged
    /// against the sibling's own oracle)
    #[serde(default)]
    pub sibling_base: Option<PoseSpec>,
}

#[derive(Clone, Debug, Serialize, Deserialize)]
pub struct Reconf {
    pub safety: SafetySpec,
    pub drop_last_env: bool,
}

#[derive(Clone, Debug, PartialEq)]
pub struct QObs {
    pub collides: bool,
    pub body_collides: bool,
    pub details: Vec<(usize, usize)>,
    pub near: Option<Vec<(usize, usize)>>,
    /// (collides, collision_details) of the sibling robot for the same posture, asked right after
    pub sibling: Option<(bool, Vec<(usize, usize)>)>,
}

#[derive(Clone, Debug)]
pub struct Fail {
    pub clause: String,
    pub signature: String,
    pub detail: String,
    /// index of the posture and of the configuration(s) involved
    pub q: usize,
    pub cfgs: Vec<usize>,
}

fn execute(robot: &Arc<KinematicsWithShape>, case: &Case, cfg: &SimCfg) -> SimOut<Vec<QObs>> {
    report::progress_case(|| { let mut c = case.clone(); c.cfgs = vec![cfg.clone()]; c.reconfigure = None; json!({"check": "C10", "case": c}) });
    let robot = robot.clone();
    let qs = case.qs.clone();
    let near = case.near.as_ref().map(|n| Arc::new(n.build()));
    let clients = case.clients.max(1);
    let via_pool = case.via_pool;
    let sibling: Option<Arc<KinematicsWithShape>> = sibling_cell(case).map(|c| Arc::new(c.build_robot()));
    sim::simulate(cfg, move || {
        let sib = sibling.clone();
        let one = move |robot: &KinematicsWithShape, q: &[f64; 6], near: &Option<Arc<rs_opw_kinematics::collisions::SafetyDistances>>| -> QObs {
            let collides = robot.collides(q);
            let body_collides = robot.body.collides(q, robot.kinematics.as_ref());
            let details = robot.collision_details(q);
            let near = near.as_ref().map(|t| robot.near(q, t));
            let sibling = sib.as_ref().map(|s| (s.collides(q), s.collision_details(q)));
            QObs { collides, body_collides, details, near, sibling }
        };
        if via_pool > 0 {
            use sim_rayon::prelude::*;
            let slots: std::sync::Mutex<Vec<Option<QObs>>> = std::sync::Mutex::new(vec![None; qs.len()]);
            (0..via_pool).into_par_iter().for_each(|c| {
                let mut i = c;
                while i < qs.len() {
                    let o = one(&robot, &qs[i], &near);
                    slots.lock().unwrap()[i] = Some(o);
                    i += via_pool;
                }
            });
            let v = slots.into_inner().unwrap();
            return v.into_iter().map(|o| o.expect("pool job did not deliver")).collect();
        }
        if clients <= 1 {
            return qs.iter().map(|q| one(&robot, q, &near)).collect();
        }
        // concurrent callers sharing one robot: caller c takes postures c, c + clients, ...
        let slots: Arc<std::sync::Mutex<Vec<Option<QObs>>>> = Arc::new(std::sync::Mutex::new(vec![None; qs.len()]));
        let mut hs = Vec::new();
        for c in 0..clients {
            let (robot, qs, near, slots) = (robot.clone(), qs.clone(), near.clone(), slots.clone());
            let one = one.clone();
            hs.push(shuttle::thread::spawn(move || {
                let mut i = c;
                while i < qs.len() {
                    let o = one(&robot, &qs[i], &near);
                    slots.lock().unwrap()[i] = Some(o);
                    i += clients;
                }
            }));
        }
        for h in hs {
            h.join().unwrap();
        }
        let v = slots.lock().unwrap().clone();
        v.into_iter().map(|o| o.expect("caller task did not deliver")).collect()
    })
}

/// The sibling's cell: same bodies, limits and safety table, base placed elsewhere.
fn sibling_cell(case: &Case) -> Option<CellSpec> {
    let p = case.sibling_base?;
    let mut c = case.cell.clone();
    c.base_tf = Some(p);
    Some(c)
}

/// Why would the library miss this pair? Used only to give violations a structural signature.
fn classify_missed(case: &Case, oc: &OracleCell, q: &[f64; 6], table: &SafetySpec, via_near: bool, a: usize, b: usize) -> &'static str {
    // near() consulting the body's own table for exemptions
    if via_near && case.cell.safety.distance(a, b) <= NEVER {
        return "near-uses-own-table-for-exemption";
    }
    // base pair exempted through a (J1, Jk) entry
    if b == J_BASE && a < 6 && (if via_near { &case.cell.safety } else { table }).distance(0, a) <= NEVER {
        return "base-pair-exempted-by-J1-entry";
    }
    // bounding-box pre-filter that tests surfaces only
    let poses = oracle::link_poses(oc, q);
    let body = |id: usize| -> (&parry3d::shape::TriMesh, nalgebra::Isometry3<f32>) {
        if id < 6 {
            (&oc.links[id], poses[id])
        } else if id == J_TOOL {
            (oc.tool.as_ref().unwrap(), poses[5])
        } else if id == J_BASE {
            let (m, p) = oc.base.as_ref().unwrap();
            (m, *p)
        } else {
            let (m, p) = &oc.env[id - ENV0];
            (m, *p)
        }
    };
    let (ma, ta) = body(a);
    let (mb, tb) = body(b);
    let r = table.distance(a, b);
    if r > 0.0 {
        use parry3d::bounding_volume::BoundingVolume;
        let (sm, tsm, bg, tbg) = if ma.vertices().len() < mb.vertices().len() { (ma, ta, mb, tb) } else { (mb, tb, ma, ta) };
        let bb = sm.local_aabb().loosened(r);
        let spec = MeshSpec::cube(
            [bb.half_extents().x, bb.half_extents().y, bb.half_extents().z],
            [bb.center().x, bb.center().y, bb.center().z],
            1,
        );
        let shell = spec.build();
        if !parry3d::query::intersection_test(&tsm, &shell, &tbg, bg).unwrap_or(true) {
            return "body-inside-loosened-box-surface-prefilter";
        }
    }
    "other"
}

fn set_of(v: &[(usize, usize)]) -> BTreeSet<(usize, usize)> {
    v.iter().copied().collect()
}

fn judge_list(
    case: &Case,
    oc: &OracleCell,
    qi: usize,
    table: &SafetySpec,
    via_near: bool,
    what: &str,
    got: &[(usize, usize)],
    b: &Brute,
    ci: usize,
    fails: &mut Vec<Fail>,
) {
    let q = &case.qs[qi];
    let definite = set_of(&b.definite());
    let dc = set_of(&b.dont_care());
    let gset = set_of(got);
    let mut push = |clause: &str, sig: String, detail: String| {
        fails.push(Fail { clause: clause.to_string(), signature: sig, detail, q: qi, cfgs: vec![ci] });
    };
    for &(x, y) in got {
        if x > y {
            push("a:pair-not-normalised", format!("C10/{what}/pair-not-normalised"), format!("{what} reported ({x},{y})"));
        }
    }
    match table.mode {
        Mode::NoCheck => {
            if !got.is_empty() {
                push("d:nocheck-nonempty", format!("C10/{what}/nocheck-nonempty"), format!("{what} returned {got:?} in no-check mode"));
            }
        }
        Mode::All => {
            if gset.len() != got.len() {
                push("a:duplicate-pair", format!("C10/{what}/duplicate"), format!("{what} returned duplicates: {got:?}"));
            }
            for p in definite.difference(&gset) {
                let why = classify_missed(case, oc, q, table, via_near, p.0, p.1);
                let pv = b.get(p.0, p.1).unwrap();
                push(
                    "a:missed-pair",
                    format!("C10/{what}/missed/{why}"),
                    format!("{what} (all-collisions) misses pair {p:?}: distance {} <= safety {} (posture #{qi})", pv.dist, pv.r),
                );
            }
            for p in gset.iter() {
                if !definite.contains(p) && !dc.contains(p) {
                    let d = b.get(p.0, p.1).map(|v| format!("distance {} > safety {}", v.dist, v.r)).unwrap_or("not a relevant pair".into());
                    push("a:spurious-pair", format!("C10/{what}/spurious"), format!("{what} reports pair {p:?} but {d} (posture #{qi})"));
                }
            }
        }
        Mode::First => {
            if got.len() > 1 {
                push("c:first-more-than-one", format!("C10/{what}/first-many"), format!("{what} (first-collision) returned {got:?}"));
            }
            for p in gset.iter() {
                if !definite.contains(p) && !dc.contains(p) {
                    push("c:first-spurious", format!("C10/{what}/spurious"), format!("{what} (first-collision) reports {p:?}, which does not collide"));
                }
            }
            if !definite.is_empty() && got.is_empty() {
                // attribute to the first definite pair
                let p = definite.iter().next().unwrap();
                let whys: BTreeSet<&str> = definite.iter().map(|p| classify_missed(case, oc, q, table, via_near, p.0, p.1)).collect();
                let why = if whys.len() == 1 { whys.iter().next().unwrap() } else { "mixed" };
                push(
                    "c:first-empty",
                    format!("C10/{what}/missed/{why}"),
                    format!("{what} (first-collision) is empty but {} pairs collide, e.g. {p:?} (posture #{qi})", definite.len()),
                );
            }
        }
    }
}

/// Run all configurations of a case and evaluate every clause.
pub fn judge(case: &Case) -> Vec<Fail> {
    let mut robot = Arc::new(case.cell.build_robot());
    judge_full(case, &mut robot, &mut |_, _| {}, &mut |_| {})
}

fn judge_full(
    case: &Case,
    robot: &mut Arc<KinematicsWithShape>,
    observe: &mut dyn FnMut(usize, &SimOut<Vec<QObs>>),
    stats: &mut dyn FnMut(&[Brute]),
) -> Vec<Fail> {
    let mut fails = judge_phase(case, robot, observe, stats);
    if let Some(rc) = &case.reconfigure {
        let mut cell2 = case.cell.clone();
        cell2.safety = rc.safety.clone();
        let dropped = rc.drop_last_env && !cell2.env.is_empty();
        if dropped {
            cell2.env.pop();
        }
        let n = cell2.env.len();
        cell2.safety.special.retain(|s| (s.0 as usize) < ENV0 + n && (s.1 as usize) < ENV0 + n);
        let mut near2 = case.near.clone();
        if let Some(t) = near2.as_mut() {
            t.special.retain(|s| (s.0 as usize) < ENV0 + n && (s.1 as usize) < ENV0 + n);
        }
        if let Some(r) = Arc::get_mut(robot) {
            r.body.safety = cell2.safety.build();
            if dropped {
                r.body.collision_environment.pop();
            }
            let case2 = Case { cell: cell2, near: near2, qs: case.qs.clone(), cfgs: vec![case.cfgs[0].clone()], clients: case.clients, via_pool: case.via_pool, reconfigure: None, sibling_base: None };
            for mut f in judge_phase(&case2, robot, &mut |_, out| observe(usize::MAX, out), &mut |_| {}) {
                f.clause = format!("{}/after-reconfiguration", f.clause);
                f.signature = format!("{}/after-reconfiguration", f.signature);
                fails.push(f);
            }
        }
    }
    fails
}

fn judge_phase(
    case: &Case,
    robot: &Arc<KinematicsWithShape>,
    observe: &mut dyn FnMut(usize, &SimOut<Vec<QObs>>),
    stats: &mut dyn FnMut(&[Brute]),
) -> Vec<Fail> {
    let oc = OracleCell::new(&case.cell);
    let own: Vec<Brute> = case.qs.iter().map(|q| oracle::brute_q(&oc, q, &case.cell.safety)).collect();
    let sib_oracle: Option<(OracleCell, Vec<Brute>)> = sibling_cell(case).map(|c| {
        let soc = OracleCell::new(&c);
        let b = case.qs.iter().map(|q| oracle::brute_q(&soc, q, &c.safety)).collect();
        (soc, b)
    });
    let near: Option<Vec<Brute>> = case.near.as_ref().map(|t| case.qs.iter().map(|q| oracle::brute_q(&oc, q, t)).collect());
    let mut fails = Vec::new();
    let mut all_obs: Vec<Option<Vec<QObs>>> = Vec::new();
    stats(&own);
    // "placed by forward kinematics": the link poses the robot's kinematics reports are those of
    // the published OPW geometry behind the base transform (independent formula in the oracle)
    for (qi, q) in case.qs.iter().enumerate() {
        if q.iter().any(|x| x.abs() > 50.0) {
            continue;
        }
        let reported = robot.kinematics.forward_with_joint_poses(q);
        let (mut dt, mut dr) = oracle::placement_error(&case.cell, &reported, q);
        // the tool centre point as well (last link frame times the tool transform)
        {
            let tcp = robot.kinematics.forward(q);
            let own = oracle::independent_forward(&case.cell, q);
            dt = dt.max((tcp.translation.vector - own.translation.vector).norm());
            dr = dr.max(tcp.rotation.angle_to(&own.rotation));
        }
        if dt > 1e-9 || dr > 1e-8 {
            fails.push(Fail {
                clause: "p:link-placement".into(),
                signature: "C10/link-placement".into(),
                detail: format!("posture #{qi}: the link poses used for placing the bodies deviate from forward kinematics of the OPW geometry by {dt:.3e} m / {dr:.3e} rad"),
                q: qi,
                cfgs: vec![0],
            });
            break;
        }
    }
    for (ci, cfg) in case.cfgs.iter().enumerate() {
        let out = execute(robot, case, cfg);
        observe(ci, &out);
        match &out.result {
            Err(abort) => {
                let (clause, msg) = match abort {
                    Abort::Panic(m) => ("f:panic", m.clone()),
                    Abort::Deadlock(m) => ("f:deadlock", m.clone()),
                    Abort::StepLimit(m) => ("f:step-limit", m.clone()),
                };
                fails.push(Fail { clause: clause.into(), signature: format!("C10/{clause}"), detail: msg, q: 0, cfgs: vec![ci] });
                all_obs.push(None);
            }
            Ok(obs) => {
                for (qi, o) in obs.iter().enumerate() {
                    let b = &own[qi];
                    judge_list(case, &oc, qi, &case.cell.safety, false, "collision_details", &o.details, b, ci, &mut fails);
                    if let (Some(t), Some(nb), Some(ng)) = (&case.near, &near, &o.near) {
                        judge_list(case, &oc, qi, t, true, "near", ng, &nb[qi], ci, &mut fails);
                    }
                    if let (Some((sc, sd)), Some((soc, sb))) = (&o.sibling, &sib_oracle) {
                        let scase = Case { cell: sibling_cell(case).unwrap(), ..case.clone() };
                        let before = fails.len();
                        judge_list(&scase, soc, qi, &scase.cell.safety, false, "collision_details", sd, &sb[qi], ci, &mut fails);
                        let expect_true = scase.cell.safety.mode != Mode::NoCheck && sb[qi].any_definite();
                        let expect_false = scase.cell.safety.mode == Mode::NoCheck || (!sb[qi].any_definite() && !sb[qi].any_dont_care());
                        if (expect_true && !*sc) || (expect_false && *sc) {
                            fails.push(Fail {
                                clause: if *sc { "e:collides-true".into() } else { "e:collides-false".into() },
                                signature: "C10/collides/sibling".into(),
                                detail: format!("collides = {sc} for the sibling robot, oracle says {:?} (posture #{qi})", sb[qi].definite()),
                                q: qi,
                                cfgs: vec![ci],
                            });
                        }
                        for f in fails[before..].iter_mut() {
                            f.clause = format!("{}/sibling-robot", f.clause);
                            f.signature = format!("{}/sibling-robot", f.signature);
                            f.detail = format!("{} [second robot with another base placement, asked right after the first by the same caller]", f.detail);
                        }
                    }
                    for (name, got) in [("collides", o.collides), ("RobotBody::collides", o.body_collides)] {
                        let expect_true = case.cell.safety.mode != Mode::NoCheck && b.any_definite();
                        let expect_false = case.cell.safety.mode == Mode::NoCheck || (!b.any_definite() && !b.any_dont_care());
                        if expect_true && !got {
                            let q = &case.qs[qi];
                            let whys: BTreeSet<&str> =
                                b.definite().iter().map(|p| classify_missed(case, &oc, q, &case.cell.safety, false, p.0, p.1)).collect();
                            let why = if whys.len() == 1 { whys.iter().next().unwrap() } else { "mixed" };
                            fails.push(Fail {
                                clause: "e:collides-false".into(),
                                signature: format!("C10/collides/missed/{why}"),
                                detail: format!("{name} is false but pairs {:?} collide (posture #{qi})", b.definite()),
                                q: qi,
                                cfgs: vec![ci],
                            });
                        }
                        if expect_false && got {
                            let clause = if case.cell.safety.mode == Mode::NoCheck { "d:nocheck-collides" } else { "e:collides-true" };
                            fails.push(Fail {
                                clause: clause.into(),
                                signature: format!("C10/collides/spurious"),
                                detail: format!("{name} is true but no relevant pair collides (posture #{qi})"),
                                q: qi,
                                cfgs: vec![ci],
                            });
                        }
                    }
                }
                all_obs.push(Some(obs.clone()));
            }
        }
    }
    // cross-schedule clause (b)
    let firsts: Vec<(usize, &Vec<QObs>)> = all_obs.iter().enumerate().filter_map(|(i, o)| o.as_ref().map(|o| (i, o))).collect();
    if firsts.len() >= 2 {
        let (i0, o0) = firsts[0];
        for &(ik, ok) in &firsts[1..] {
            for qi in 0..case.qs.len().min(o0.len()).min(ok.len()) {
                let (x, y) = (&o0[qi], &ok[qi]);
                let mut diff = Vec::new();
                if x.collides != y.collides || x.body_collides != y.body_collides {
                    diff.push(format!("collides {} vs {}", x.collides, y.collides));
                }
                if case.cell.safety.mode != Mode::First && x.details != y.details {
                    diff.push(format!("collision_details {:?} vs {:?}", x.details, y.details));
                }
                if case.cell.safety.mode == Mode::First && x.details.is_empty() != y.details.is_empty() {
                    diff.push(format!("first-collision emptiness {:?} vs {:?}", x.details, y.details));
                }
                if let (Some(t), Some(nx), Some(ny)) = (&case.near, &x.near, &y.near) {
                    if (t.mode != Mode::First && nx != ny) || (t.mode == Mode::First && nx.is_empty() != ny.is_empty()) {
                        diff.push(format!("near {:?} vs {:?}", nx, ny));
                    }
                }
                if !diff.is_empty() {
                    fails.push(Fail {
                        clause: "b:schedule-dependent".into(),
                        signature: "C10/schedule-dependent".into(),
                        detail: format!("posture #{qi}: result depends on schedule/pool: {}", diff.join("; ")),
                        q: qi,
                        cfgs: vec![i0, ik],
                    });
                }
            }
        }
    }
    fails
}

// ---------------------------------------------------------------------------------------------
// Minimisation
// ---------------------------------------------------------------------------------------------

fn drop_env(case: &Case, k: usize) -> Case {
    let mut c = case.clone();
    c.cell.env.remove(k);
    let fix = |t: &mut SafetySpec| {
        t.special.retain(|s| s.0 as usize != ENV0 + k && s.1 as usize != ENV0 + k);
        for s in t.special.iter_mut() {
            if s.0 as usize > ENV0 + k {
                s.0 -= 1;
            }
            if s.1 as usize > ENV0 + k {
                s.1 -= 1;
            }
        }
    };
    fix(&mut c.cell.safety);
    if let Some(n) = c.near.as_mut() {
        fix(n);
    }
    c
}

fn candidates(case: &Case) -> Vec<Case> {
    let mut out = Vec::new();
    if case.reconfigure.is_some() {
        let mut c = case.clone();
        c.reconfigure = None;
        out.push(c);
    }
    if case.clients > 1 {
        let mut c = case.clone();
        c.clients = 1;
        out.push(c);
    }
    if case.via_pool > 0 {
        let mut c = case.clone();
        c.via_pool = 0;
        out.push(c);
        if case.via_pool > 1 {
            let mut c = case.clone();
            c.via_pool -= 1;
            out.push(c);
        }
    }
    if case.sibling_base.is_some() {
        let mut c = case.clone();
        c.sibling_base = None;
        out.push(c);
    }
    if case.qs.len() > 1 {
        for i in 0..case.qs.len() {
            let mut c = case.clone();
            c.qs = vec![case.qs[i]];
            out.push(c);
        }
    }
    if case.cfgs.len() > 2 {
        for i in 0..case.cfgs.len() {
            let mut c = case.clone();
            c.cfgs.remove(i);
            out.push(c);
        }
    }
    for k in 0..case.cell.env.len() {
        out.push(drop_env(case, k));
    }
    if case.near.is_some() {
        let mut c = case.clone();
        c.near = None;
        out.push(c);
    }
    for i in 0..case.cell.safety.special.len() {
        let mut c = case.clone();
        c.cell.safety.special.remove(i);
        out.push(c);
    }
    if let Some(n) = &case.near {
        for i in 0..n.special.len() {
            let mut c = case.clone();
            c.near.as_mut().unwrap().special.remove(i);
            out.push(c);
        }
    }
    if case.cell.ctor == Ctor::Direct {
        if case.cell.tool.is_some() {
            let mut c = case.clone();
            c.cell.tool = None;
            let f = |t: &mut SafetySpec| t.special.retain(|s| s.0 as usize != J_TOOL && s.1 as usize != J_TOOL);
            f(&mut c.cell.safety);
            if let Some(n) = c.near.as_mut() {
                f(n)
            }
            out.push(c);
        }
        if case.cell.base.is_some() {
            let mut c = case.clone();
            c.cell.base = None;
            let f = |t: &mut SafetySpec| t.special.retain(|s| s.0 as usize != J_BASE && s.1 as usize != J_BASE);
            f(&mut c.cell.safety);
            if let Some(n) = c.near.as_mut() {
                f(n)
            }
            out.push(c);
        }
    }
    for i in 0..case.cfgs.len() {
        for s in minimise::simpler_cfgs(&case.cfgs[i]) {
            let mut c = case.clone();
            c.cfgs[i] = s;
            out.push(c);
        }
    }
    out
}

fn minimise_case(case: &Case, clause: &str, signature: &str) -> Case {
    let mut still = |c: &Case| judge(c).iter().any(|f| f.clause == clause && f.signature == signature);
    let mut cur = minimise::greedy(case.clone(), &candidates, &mut still, 120);
    // make schedules explicit and shrink them
    for i in 0..cur.cfgs.len() {
        let robot = Arc::new(cur.cell.build_robot());
        let out = execute(&robot, &cur, &cur.cfgs[i]);
        let explicit = minimise::with_replay(&cur.cfgs[i], out.schedule.clone(), Some(out.rng_record.clone()));
        let mut trial = cur.clone();
        trial.cfgs[i] = explicit;
        if !still(&trial) {
            continue; // keep the seeded form (still replayable: the seed is explicit data)
        }
        let base = trial.clone();
        let list = out.schedule.clone();
        let shrunk = minimise::shrink_schedule(
            &list,
            &mut |l: &[u32]| {
                let mut t = base.clone();
                t.cfgs[i].sched = SchedSpec::Replay(l.to_vec());
                still(&t)
            },
            60,
        );
        trial.cfgs[i].sched = SchedSpec::Replay(shrunk);
        cur = trial;
    }
    cur
}

pub fn replay(case: &Value) -> Option<(String, String)> {
    let case: Case = serde_json::from_value(case.clone()).ok()?;
    judge(&case).into_iter().next().map(|f| (f.clause, f.detail))
}

/// All clauses the case fails (used by replay to check for a specific one).
pub fn replay_all(case: &Value) -> Vec<(String, String)> {
    match serde_json::from_value::<Case>(case.clone()) {
        Ok(c) => judge(&c).into_iter().map(|f| (f.clause, f.detail)).collect(),
        Err(e) => vec![("harness:bad-case".into(), e.to_string())],
    }
}

// ---------------------------------------------------------------------------------------------
// Generation and the check itself
// ---------------------------------------------------------------------------------------------

pub struct Tier {
    pub shards: usize,
    pub scenarios_per_shard: usize,
    pub schedules: usize,
    pub max_sub: u8,
    pub stl_every: usize,
}

pub fn tier(name: &str) -> Tier {
    match name {
        "thorough" => Tier { shards: 256, scenarios_per_shard: 120, schedules: 8, max_sub: 6, stl_every: 60 },
        "stl" => Tier { shards: 16, scenarios_per_shard: 2, schedules: 2, max_sub: 3, stl_every: 1 },
        "smoke" => Tier { shards: 4, scenarios_per_shard: 10, schedules: 3, max_sub: 3, stl_every: 0 },
        _ => Tier { shards: 32, scenarios_per_shard: 60, schedules: 4, max_sub: 4, stl_every: 0 },
    }
}

pub fn gen_case(seed: u64, shard: u64, run: u64, t: &Tier) -> (Case, Vec<Relation>) {
    let mut w = Rng::derive(seed, shard, run, "c10.workload");
    let mut knobs = Rng::derive(seed, shard, run, "c10.knobs");
    let k = CellKnobs {
        tool_p: 0.7,
        base_p: 0.7,
        max_env: if knobs.chance(0.06) { 14 } else { 4 },
        max_sub: t.max_sub,
        limits: LimitKind::None,
        ctor: Ctor::Direct,
        touch_only: false,
        sparse: knobs.chance(0.5),
    };
    let mut cell = gen::gen_robot(&mut w, &k);
    if t.stl_every > 0 && run % t.stl_every as u64 == 0 {
        crate::gen_stl::use_rx160(&mut cell);
    }
    // the kinematics behind the shape is any `Kinematics`: now and then a parallelogram linkage
    // (usual 1:1 coupling of J3 to J2, and unusual ratios / joints) around the stack
    {
        let mut pk = Rng::derive(seed, shard, run, "c10.parallelogram");
        if pk.chance(0.12) {
            let scaling = *pk.pick(&[1.0, 1.0, 0.5, -1.0, 2.0, 0.25]);
            let (driven, coupled) = if pk.chance(0.7) { (1usize, 2usize) } else { *pk.pick(&[(2usize, 1usize), (1, 4), (0, 3), (3, 5)]) };
            cell.parallelogram = Some((scaling, driven, coupled));
        }
    }
    let n_q = w.range_usize(1, 5);
    let mut qs: Vec<[f64; 6]> = (0..n_q).map(|_| gen::gen_posture(&mut w, &None)).collect();
    // pre-decide how many environment bodies there will be so that the safety table can name them
    let anchor = qs[0];
    cell.safety = gen::gen_safety(&mut w, cell.tool.is_some(), cell.base.is_some(), k.max_env, false, k.sparse);
    let rels = gen::add_environment(&mut w, &mut cell, &anchor, &k);
    // entries naming environment bodies that do not exist are harmless but pointless: drop them
    let n_env = cell.env.len();
    cell.safety.special.retain(|s| (s.0 as usize) < ENV0 + n_env && (s.1 as usize) < ENV0 + n_env);
    // a few postures near the anchor so that near-threshold relations are exercised repeatedly
    for _ in 0..w.below(3) {
        let mut q = anchor;
        let j = w.below(6);
        q[j] += w.range_f64(-0.02, 0.02);
        qs.push(q);
    }
    // the same posture twice in a row now and then
    if w.chance(0.1) {
        let q = qs[w.below(qs.len())];
        qs.push(q);
    }
    let near = if w.chance(0.6) {
        let near_sparse = k.sparse && w.chance(0.7);
        let mut n = gen::gen_safety(&mut w, cell.tool.is_some(), cell.base.is_some(), n_env, false, near_sparse);
        n.special.retain(|s| (s.0 as usize) < ENV0 + n_env && (s.1 as usize) < ENV0 + n_env);
        Some(n)
    } else {
        None
    };
    let mut cfgs = Vec::new();
    for s in 0..t.schedules {
        let sched_seed = simctx::mix(&[seed, shard, run, s as u64, simctx::name_hash("c10.sched")]);
        cfgs.push(SimCfg::swarm(&mut knobs, sched_seed, 0, 200_000));
    }
    let clients = if knobs.chance(0.25) { knobs.range_usize(2, 3) } else { 1 };
    let reconfigure = if knobs.chance(0.3) {
        let mut t2 = gen::gen_safety(&mut w, cell.tool.is_some(), cell.base.is_some(), n_env, false, knobs.chance(0.5));
        t2.special.retain(|s| (s.0 as usize) < ENV0 + n_env && (s.1 as usize) < ENV0 + n_env);
        // half of the time the SAME table retuned (same keys, same counts, other values), with
        // every body staying where it is
        let same_shape = knobs.chance(0.5);
        let mut lifted = false;
        if same_shape && knobs.chance(0.5) {
            // guided: in the first phase exactly the pairs that make some posture collide are
            // exempt; in the second the exemption is lifted by overwriting the same keys
            let oc = OracleCell::new(&cell);
            for q in qs.iter() {
                let b = oracle::brute_q(&oc, q, &cell.safety);
                let pairs = b.definite();
                if pairs.is_empty() || pairs.len() > 4 {
                    continue;
                }
                let (mut first, mut second) = (cell.safety.clone(), cell.safety.clone());
                for (a, bb) in pairs {
                    let d = cell.safety.distance(a, bb);
                    first.special.retain(|s| !((s.0 as usize, s.1 as usize) == (a, bb) || (s.0 as usize, s.1 as usize) == (bb, a)));
                    second.special.retain(|s| !((s.0 as usize, s.1 as usize) == (a, bb) || (s.0 as usize, s.1 as usize) == (bb, a)));
                    first.special.push((a as u16, bb as u16, NEVER));
                    second.special.push((a as u16, bb as u16, d));
                }
                cell.safety = first;
                t2 = second;
                lifted = true;
                break;
            }
        }
        if same_shape && !lifted {
            t2 = gen::retune_safety(&mut w, &cell.safety);
        }
        Some(Reconf { safety: t2, drop_last_env: !same_shape && knobs.chance(0.4) })
    } else {
        None
    };
    let sibling_base = if knobs.chance(0.2) {
        Some(PoseSpec { t: [w.range_f64(-0.8, 0.8), w.range_f64(-0.8, 0.8), w.range_f64(0.0, 0.6)], rpy: [0.0, 0.0, w.range_f64(-3.0, 3.0)] })
    } else {
        None
    };
    let is_stl = cell.links.iter().any(|m| m.stl.is_some());
    let (mut qs, mut cfgs, mut reconfigure, mut sibling_base) = (qs, cfgs, reconfigure, sibling_base);
    if is_stl {
        // the bundled meshes have thousands of triangles: keep these scenarios small
        qs.truncate(2);
        cfgs.truncate(3);
        reconfigure = None;
        sibling_base = None;
    }
    // callers that are pool workers themselves (a fifth of the single-caller scenarios)
    let via_pool = {
        let mut v = Rng::derive(seed, shard, run, "c10.via-pool");
        if clients == 1 && v.chance(0.2) { v.range_usize(1, 4) } else { 0 }
    };
    (Case { cell, near, qs, cfgs, clients, via_pool, reconfigure, sibling_base }, rels)
}

pub fn run(tier_name: &str, seed: u64) -> i32 {
    let t = tier(tier_name);
    let started = std::time::Instant::now();
    let tally = report::run_shards(t.shards, |shard| {
        let mut tally = Tally::default();
        for run in 0..t.scenarios_per_shard {
            report::progress(shard, run);
            let (case, rels) = gen_case(seed, shard as u64, run as u64, &t);
            for r in &rels {
                tally.bump(&format!("env_relation_{r:?}").to_lowercase(), 1);
            }
            let mut robot = Arc::new(case.cell.build_robot());
            let scen_hash = simctx::name_hash(&serde_json::to_string(&(&case.cell, &case.near, &case.qs)).unwrap());
            let mut sample: Option<Value> = None;
            let mut pair_stats: Vec<(String, u64)> = Vec::new();
            if case.clients > 1 {
                tally.bump("scenarios_with_concurrent_callers", 1);
            }
            if case.via_pool > 0 {
                tally.bump("scenarios_with_callers_on_pool_workers", 1);
            }
            if case.sibling_base.is_some() {
                tally.bump("scenarios_alternating_with_a_sibling_robot", 1);
            }
            let fails = judge_full(&case, &mut robot, &mut |ci, out| {
                tally.evaluations += 1;
                if ci == usize::MAX {
                    tally.bump("history_requery_after_reconfiguration", 1);
                    return;
                }
                let c = &out.counters;
                tally.bump("sched_steps", c.steps);
                tally.max("max_sched_steps_in_one_execution", c.steps);
                tally.bump("sched_branching_points", c.branching);
                tally.max("max_runnable_tasks", c.max_runnable as u64);
                tally.bump("par_calls", c.n_par_calls);
                tally.bump("work_steals_while_blocked_ran", c.n_steals_ran);
                tally.bump("par_calls_multiworker", c.n_par_multiworker);
                tally.bump("par_items", c.n_par_items);
                tally.bump("find_any_races", c.n_find_any_races);
                tally.bump("find_any_races_with_several_hits", c.n_find_any_multi);
                tally.bump("items_skipped_after_found", c.n_skipped_after_found);
                tally.bump(&format!("pool_size_{:02}", case.cfgs[ci].pool), 1);
                if let SchedSpec::Seeded { flavour, .. } = &case.cfgs[ci].sched {
                    let name = match flavour {
                        sim::Flavour::Uniform => "flavour_uniform",
                        sim::Flavour::Sticky(_) => "flavour_sticky",
                        sim::Flavour::Pct { .. } => "flavour_pct",
                        sim::Flavour::Starve(_) => "fault_starved_worker",
                    };
                    tally.bump(name, 1);
                }
                if c.branching > 0 {
                    tally.distinct.insert(((scen_hash as u128) << 64) | c.sched_sig as u128);
                }
                if let Ok(obs) = &out.result {
                    for o in obs {
                        tally.bump("api_calls", 3 + o.near.is_some() as u64);
                        if o.collides {
                            tally.bump("postures_colliding", 1);
                        } else {
                            tally.bump("postures_free", 1);
                        }
                    }
                    if sample.is_none() && ci == 0 {
                        sample = Some(json!({
                            "pool": case.cfgs[ci].pool, "take": format!("{:?}", case.cfgs[ci].take),
                            "sched": format!("{:?}", case.cfgs[ci].sched),
                            "tool": case.cell.tool.is_some(), "base": case.cell.base.is_some(),
                            "env_bodies": case.cell.env.len(), "mode": format!("{:?}", case.cell.safety.mode),
                            "safety": {"to_env": case.cell.safety.to_env, "to_robot": case.cell.safety.to_robot, "special": case.cell.safety.special},
                            "q0": case.qs[0],
                            "observed": {"collides": obs[0].collides, "details": obs[0].details, "near": obs[0].near},
                            "schedule_prefix": out.schedule.iter().take(24).collect::<Vec<_>>(),
                            "log_hash": out.log.hex(),
                        }));
                    }
                }
            }, &mut |brutes: &[Brute]| {
                for b in brutes {
                    let mut any = false;
                    for p in &b.pairs {
                        let class = match (p.a, p.b) {
                            (a, b2) if a < 6 && b2 < 6 => "link_link",
                            (a, b2) if a < 6 && b2 == J_TOOL => "link_tool",
                            (a, b2) if a < 6 && b2 == J_BASE => "link_base",
                            (a, b2) if a == J_TOOL && b2 == J_BASE => "tool_base",
                            (a, _) if a == J_TOOL => "tool_env",
                            _ => "link_env",
                        };
                        pair_stats.push((format!("oracle_pairs_{class}"), 1));
                        if p.dont_care {
                            pair_stats.push(("oracle_pairs_dont_care".into(), 1));
                        } else if p.collide {
                            any = true;
                            pair_stats.push((format!("oracle_pairs_{class}_colliding"), 1));
                        }
                        if p.r <= NEVER {
                            pair_stats.push(("oracle_pairs_exempt".into(), 1));
                        } else if p.r == 0.0 {
                            pair_stats.push(("oracle_pairs_touch_only".into(), 1));
                        } else if !p.dont_care && (p.dist - p.r).abs() < 0.012 {
                            pair_stats.push(("oracle_pairs_within_12mm_of_threshold".into(), 1));
                        }
                    }
                    pair_stats.push((if any { "oracle_postures_colliding" } else { "oracle_postures_free" }.into(), 1));
                }
            });
            for (k, v) in pair_stats {
                tally.bump(&k, v);
            }
            if let Some(s) = sample {
                if tally.samples.len() < 2 {
                    tally.samples.push(s);
                }
            }
            // one violation per (clause, signature) per scenario, minimised
            let mut seen = BTreeSet::new();
            for f in fails {
                if !seen.insert((f.clause.clone(), f.signature.clone())) || !tally.first_few(&f.clause, &f.signature, 2) {
                    continue;
                }
                tally.bump("raw_failures", 1);
                let mut small = case.clone();
                small.qs = vec![case.qs[f.q]];
                small.cfgs = f.cfgs.iter().map(|&i| case.cfgs[i].clone()).collect();
                let has = |c: &Case| judge(c).iter().any(|g| g.clause == f.clause && g.signature == f.signature);
                let start = if has(&small) { small } else { case.clone() };
                let min = minimise_case(&start, &f.clause, &f.signature);
                let detail = judge(&min)
                    .into_iter()
                    .find(|g| g.clause == f.clause && g.signature == f.signature)
                    .map(|g| g.detail)
                    .unwrap_or(f.detail.clone());
                tally.violations.push(Violation {
                    property: "C10".into(),
                    clause: f.clause.clone(),
                    signature: f.signature.clone(),
                    detail,
                    case: json!({"check": "C10", "case": min}),
                    origin: Some((shard, run)),
                });
            }
        }
        tally
    });
    let mut tally = tally;
    if tier_name == "thorough" {
        // validate the rayon contract model against the real crate (model validation, not a verdict)
        let (validated, bad) = crate::validate_rayon::validate(seed, 150, false);
        tally.bump("traces_validated_against_impl", validated);
        if bad > 0 {
            tally.harness_errors.push(format!("sim-rayon model does not cover {bad} outcomes of real rayon"));
        }
    }
    let wall = started.elapsed().as_secs_f64();
    let meta = CheckMeta {
        property: "C10",
        tier: if tier_name == "thorough" { "thorough" } else { "quick" },
        seed,
        level: "exploration",
        rule: "one evaluation = one simulated execution (all API calls for all postures of one generated cell under one seeded schedule, pool size and take policy). distinct_nontrivial counts distinct (cell+postures hash, schedule signature) pairs whose execution had at least one scheduling decision with >= 2 runnable tasks; the schedule signature hashes the decisions taken at such points.",
        assumptions: vec![
            "parry3d distance / intersection queries and forward_with_joint_poses are trusted by the oracle".into(),
            "rayon is replaced by a contract model (sim-rayon) on shuttle tasks; real rayon's implementation is out of scope".into(),
            "pairs within 1e-4*max(1,r) of their safety distance (or touching within 2e-5 in touch-only mode) accept either answer".into(),
        ],
        components: json!({
            "real": ["/repo/src (collisions.rs, kinematics_with_shape.rs, kinematics_impl.rs, tool.rs)", "parry3d", "nalgebra"],
            "stub_contract_model": ["rayon (sim-rayon)"],
            "simulator": ["shuttle tasks + opwsim SeededScheduler (uniform / sticky / PCT / starved worker)"],
        }),
        exhaustive: false,
    };
    report::finish(meta, tally, wall, &|v| replay_value(v), &|shard, run| case_json(tier_name, seed, shard, run))
}

pub fn replay_value(v: &Value) -> Vec<(String, String)> {
    replay_all(&v["case"])
}


/// Determinism self-test support: one line per (case, configuration) with the event-log hash and
/// a hash of the observable result.
pub fn digest(seed: u64, i: u64) -> Vec<String> {
    let t = tier("quick");
    let (case, _) = gen_case(seed, 9000 + i % 5, i, &t);
    let robot = Arc::new(case.cell.build_robot());
    case.cfgs
        .iter()
        .enumerate()
        .map(|(j, cfg)| {
            let out = execute(&robot, &case, cfg);
            format!("C10 {i} {j} {} {:016x} {}", out.log.hex(), simctx::name_hash(&format!("{:?}", out.result)), out.schedule.len())
        })
        .collect()
}

/// The explicit case of scenario `run` of shard `shard` (history replay).
pub fn case_json(tier_name: &str, seed: u64, shard: usize, run: usize) -> Option<Value> {
    let t = tier(tier_name);
    let (case, _) = gen_case(seed, shard as u64, run as u64, &t);
    Some(json!({"check": "C10", "case": case}))
}
