//! Model validation: sim-rayon against the real rayon crate.
//!
//! The same pure-closure workloads run on REAL rayon (pools of 1, 2 and 16 threads, many
//! repetitions) and on the contract model under many seeded schedules. Every outcome real rayon
//! produced must lie in the set of outcomes the model produced. Only schedule-independent
//! assertions are used (set membership), so this cannot flake. It validates the stub; it decides
//! no property.

use crate::report;
use crate::sim::{self, SimCfg};
use simctx::Rng;
use std::collections::BTreeSet;

#[derive(Clone, Debug, PartialEq, Eq, PartialOrd, Ord)]
enum Outcome {
    Collect(Vec<u32>),
    Find(Option<u32>),
    Nested(Vec<Option<u32>>),
}

#[derive(Clone)]
struct Work {
    items: Vec<u32>,
    /// item values that "hit"
    hits: BTreeSet<u32>,
    kind: u8,
}

mod real {
    use super::{Outcome, Work};
    use real_rayon::prelude::*;
    pub fn on_real(w: &Work, threads: usize) -> Outcome {
        let pool = real_rayon::ThreadPoolBuilder::new().num_threads(threads).build().expect("pool");
        pool.install(|| match w.kind {
            0 => Outcome::Collect(w.items.par_iter().filter_map(|x| if w.hits.contains(x) { Some(*x * 3) } else { None }).collect()),
            1 => Outcome::Find(w.items.par_iter().find_map_any(|x| if w.hits.contains(x) { Some(*x) } else { None })),
            _ => Outcome::Nested(
                w.items
                    .chunks(4)
                    .collect::<Vec<_>>()
                    .par_iter()
                    .map(|c| c.par_iter().find_map_any(|x| if w.hits.contains(x) { Some(*x) } else { None }))
                    .collect(),
            ),
        })
    }
}

mod model {
    use super::{Outcome, Work};
    use crate::sim::{self, SimCfg};
    use sim_rayon::prelude::*;
    pub fn on_model(w: &Work, cfg: &SimCfg) -> Option<Outcome> {
        let w = w.clone();
        let out = sim::simulate(cfg, move || match w.kind {
            0 => Outcome::Collect(w.items.par_iter().filter_map(|x| if w.hits.contains(x) { Some(*x * 3) } else { None }).collect()),
            1 => Outcome::Find(w.items.par_iter().find_map_any(|x| if w.hits.contains(x) { Some(*x) } else { None })),
            _ => Outcome::Nested(
                w.items
                    .chunks(4)
                    .collect::<Vec<_>>()
                    .par_iter()
                    .map(|c| c.par_iter().find_map_any(|x| if w.hits.contains(x) { Some(*x) } else { None }))
                    .collect(),
            ),
        });
        out.result.ok()
    }
}
use model::on_model;
use real::on_real;

/// Returns (traces validated, mismatches).
pub fn validate(seed: u64, workloads: usize, quiet: bool) -> (u64, u64) {
    let mut validated = 0;
    let mut bad = 0;
    for k in 0..workloads {
        let mut w = Rng::derive(seed, 77, k as u64, "validate.workload");
        let n = w.range_usize(1, 24);
        let items: Vec<u32> = (0..n as u32).collect();
        let mut hits = BTreeSet::new();
        for x in &items {
            if w.chance(0.25) {
                hits.insert(*x);
            }
        }
        let work = Work { items, hits, kind: (k % 3) as u8 };
        let mut model: BTreeSet<Outcome> = BTreeSet::new();
        let mut knobs = Rng::derive(seed, 77, k as u64, "validate.knobs");
        for s in 0..60 {
            let cfg = SimCfg::swarm(&mut knobs, simctx::mix(&[seed, k as u64, s]), 0, 200_000);
            match on_model(&work, &cfg) {
                Some(o) => {
                    model.insert(o);
                }
                None => {
                    bad += 1;
                    if !quiet {
                        report::say(&format!("HARNESS-ERROR: model execution aborted for workload #{k}"));
                    }
                }
            }
        }
        for threads in [1usize, 2, 16] {
            for _ in 0..20 {
                let real = on_real(&work, threads);
                validated += 1;
                // for Find/Nested the model must be able to produce the real outcome; since the
                // model's hit choice is random, accept any outcome whose every component is a
                // legal hit when the model produced at least one outcome of the same shape
                let ok = model.contains(&real)
                    || match &real {
                        Outcome::Find(Some(x)) => work.hits.contains(x) && model.iter().any(|m| matches!(m, Outcome::Find(Some(_)))),
                        Outcome::Nested(v) => {
                            v.iter().enumerate().all(|(ci, r)| {
                                let chunk: Vec<u32> = work.items.chunks(4).nth(ci).unwrap().to_vec();
                                match r {
                                    Some(x) => chunk.contains(x) && work.hits.contains(x),
                                    None => !chunk.iter().any(|y| work.hits.contains(y)),
                                }
                            }) && model.iter().any(|m| matches!(m, Outcome::Nested(mv) if mv.len() == v.len()))
                        }
                        _ => false,
                    };
                if !ok {
                    bad += 1;
                    if !quiet {
                        report::say(&format!("MODEL-MISMATCH: workload #{k} kind {} threads {threads}: real rayon produced {real:?}, model produced {:?}", work.kind, model));
                    }
                }
            }
        }
    }
    (validated, bad)
}

/// Observation on REAL rayon (no assertion, the count depends on the machine): how often does a
/// pool thread that is blocked inside the nested parallel call of one outer item start ANOTHER
/// outer item on top of its stack? This is the behaviour the model's `steal` knob reproduces
/// (re-entrancy into thread-local state, "lock held across a parallel call" deadlocks).
pub fn observe_reentrancy_on_real_rayon() -> (u64, u64) {
    use real_rayon::prelude::*;
    use std::cell::Cell;
    use std::sync::atomic::{AtomicU64, Ordering};
    thread_local! {
        static DEPTH: Cell<u32> = const { Cell::new(0) };
    }
    let reentered = AtomicU64::new(0);
    let total = AtomicU64::new(0);
    let pool = real_rayon::ThreadPoolBuilder::new().num_threads(4).build().expect("pool");
    pool.install(|| {
        for _ in 0..200 {
            (0..64u32).into_par_iter().for_each(|_| {
                total.fetch_add(1, Ordering::Relaxed);
                let d = DEPTH.with(|c| c.get());
                if d > 0 {
                    reentered.fetch_add(1, Ordering::Relaxed);
                }
                DEPTH.with(|c| c.set(d + 1));
                let s: u64 = (0..16u64).into_par_iter().map(|x| (0..2000u64).fold(x, |a, b| a.wrapping_mul(31).wrapping_add(b)) & 0xffff).sum();
                std::hint::black_box(s);
                DEPTH.with(|c| c.set(d));
            });
        }
    });
    (reentered.load(Ordering::Relaxed), total.load(Ordering::Relaxed))
}

pub fn run(seed: u64) -> i32 {
    let (v, bad) = validate(seed, 150, false);
    report::say(&format!("validate-rayon: {v} outcomes of real rayon (pools 1/2/16) checked against the model's outcome sets, {bad} mismatches"));
    let (re, total) = observe_reentrancy_on_real_rayon();
    report::say(&format!("validate-rayon: on real rayon (4 threads) {re} of {total} outer items started on a thread that was blocked inside another outer item's nested parallel call (observation only; the model's work-stealing-while-blocked knob reproduces this)"));
    if bad > 0 {
        2
    } else {
        0
    }
}
