//! C14 — the single-joint offsets offered to search planners are exactly the legal,
//! collision-free ones among the twelve candidates, for every schedule of the outer (12 tasks)
//! and nested (collision pairs) parallel loops.

use crate::cell::*;
use crate::gen::{self, CellKnobs, LimitKind};
use crate::minimise;
use crate::oracle::{self, Tri};
use crate::report::{self, CheckMeta, Tally, Violation};
use crate::sim::{self, Abort, SchedSpec, SimCfg, SimOut};
use rs_opw_kinematics::kinematics_with_shape::KinematicsWithShape;
use serde::{Deserialize, Serialize};
use serde_json::{json, Value};
use simctx::Rng;
use std::collections::BTreeSet;
use std::sync::Arc;

#[derive(Clone, Debug, Serialize, Deserialize)]
pub struct Case {
    pub cell: CellSpec,
    pub initial: [f64; 6],
    pub from: [f64; 6],
    pub to: [f64; 6],
    pub cfgs: Vec<SimCfg>,
    /// history: a second call on the same robot in the same execution with `from` and `to` swapped
    #[serde(default)]
    pub second_call: bool,
    /// > 0: the call is made by that many jobs of a parallel iterator at once (the caller is a
    /// pool worker, as in a search planner that expands several nodes in its own `par_iter`);
    /// all jobs ask the same question, the first answer that differs from job 0's is the observed one
    #[serde(default)]
    pub via_pool: usize,
    /// history: afterwards the SAME robot object is re-arranged through its public fields (new
    /// safety table, first environment body moved; the number of bodies stays the same) and the
    /// same request is made again
    #[serde(default)]
    pub reconfigure: Option<Reconf>,
}

#[derive(Clone, Debug, Serialize, Deserialize)]
pub struct Reconf {
    pub safety: SafetySpec,
    pub move_env0: Option<PoseSpec>,
}

#[derive(Clone, Debug)]
pub struct Fail {
    pub clause: String,
    pub signature: String,
    pub detail: String,
    pub cfgs: Vec<usize>,
}

fn execute(robot: &Arc<KinematicsWithShape>, case: &Case, cfg: &SimCfg) -> SimOut<Offered> {
    report::progress_case(|| { let mut c = case.clone(); c.cfgs = vec![cfg.clone()]; c.reconfigure = None; json!({"check": "C14", "case": c}) });
    let robot = robot.clone();
    let (i, f, t) = (case.initial, case.from, case.to);
    let second = case.second_call;
    let via_pool = case.via_pool;
    sim::simulate(cfg, move || {
        if via_pool > 0 {
            use sim_rayon::prelude::*;
            let slots: std::sync::Mutex<Vec<Option<Vec<[f64; 6]>>>> = std::sync::Mutex::new(vec![None; via_pool]);
            (0..via_pool).into_par_iter().for_each(|k| {
                let v = robot.non_colliding_offsets(&i, &f, &t);
                slots.lock().unwrap()[k] = Some(v);
            });
            let all: Vec<Vec<[f64; 6]>> = slots.into_inner().unwrap().into_iter().map(|o| o.expect("pool job did not deliver")).collect();
            let v = all.iter().find(|v| **v != all[0]).unwrap_or(&all[0]).clone();
            let reported = v.iter().map(|q| robot.collides(q)).collect();
            return Offered { v, reported };
        }
        if second {
            // the observed call is the SECOND one; the first (other argument order) only leaves
            // behind whatever state the implementation keeps
            let _ = robot.non_colliding_offsets(&i, &t, &f);
        }
        let v = robot.non_colliding_offsets(&i, &f, &t);
        // what the same robot's full check says about each offered vector
        let reported = v.iter().map(|q| robot.collides(q)).collect();
        Offered { v, reported }
    })
}

#[derive(Clone, Debug, Default)]
pub struct Offered {
    pub v: Vec<[f64; 6]>,
    pub reported: Vec<bool>,
}

#[derive(Clone, Debug)]
struct Cand {
    q: [f64; 6],
    joint: usize,
    legal: Tri,
    /// definite colliding pairs / don't-care present
    colliding: Vec<(usize, usize)>,
    dont_care: bool,
}

fn candidates_of(case: &Case, oc: &OracleCell) -> Vec<Cand> {
    let mut out = Vec::new();
    for j in 0..6 {
        for target in [&case.from, &case.to] {
            let mut q = case.initial;
            q[j] = target[j];
            let legal = match &case.cell.limits {
                Some((f, t)) => oracle::within_limits(&q, f, t, 1e-9),
                None => Tri::Yes,
            };
            let b = oracle::brute_q(oc, &q, &case.cell.safety);
            let (colliding, dont_care) = if case.cell.safety.mode == Mode::NoCheck { (vec![], false) } else { (b.definite(), b.any_dont_care()) };
            out.push(Cand { q, joint: j, legal, colliding, dont_care });
        }
    }
    out
}

fn same(a: &[f64; 6], b: &[f64; 6]) -> bool {
    a.iter().zip(b).all(|(x, y)| x.to_bits() == y.to_bits())
}

/// Shape of a colliding pair relative to the moved joint (for signatures).
fn pair_shape(joint: usize, a: usize, b: usize) -> &'static str {
    let moved = |k: usize| (k < 6 && k >= joint) || k == J_TOOL;
    let is_link = |k: usize| k < 6;
    if b == J_BASE && is_link(a) {
        return if moved(a) { "moved-link-vs-base" } else { "unmoved-link-vs-base" };
    }
    if a == J_TOOL && b == J_BASE {
        return "tool-vs-base";
    }
    if b >= ENV0 {
        return if moved(a) { "moved-body-vs-environment" } else { "unmoved-link-vs-environment" };
    }
    if is_link(a) && (is_link(b) || b == J_TOOL) {
        return match (moved(a), moved(b)) {
            (false, true) => "unmoved-link-vs-moved-body",
            (true, true) => "moved-vs-moved",
            _ => "unmoved-vs-unmoved",
        };
    }
    "other"
}

pub fn judge(case: &Case) -> Vec<Fail> {
    let mut robot = Arc::new(case.cell.build_robot());
    judge_with(case, &mut robot, &mut |_, _| {}, &mut |_| {})
}

fn judge_with(
    case: &Case,
    robot: &mut Arc<KinematicsWithShape>,
    observe: &mut dyn FnMut(usize, &SimOut<Offered>),
    stats: &mut dyn FnMut(&[(Tri, bool, bool)]),
) -> Vec<Fail> {
    let mut fails = judge_phase(case, robot, observe, stats);
    if let Some(rc) = &case.reconfigure {
        let mut cell2 = case.cell.clone();
        cell2.safety = rc.safety.clone();
        if let (Some(p), true) = (rc.move_env0, !cell2.env.is_empty()) {
            cell2.env[0].pose = p;
        }
        // the property (and the skip shortcut) presupposes a collision-free initial vector: the
        // repeated request is only made if that still holds in the re-arranged cell
        let still_free = {
            let oc2 = OracleCell::new(&cell2);
            let b = oracle::brute_q(&oc2, &case.initial, &cell2.safety);
            !b.any_definite() && !b.any_dont_care()
        };
        if !still_free {
            return fails;
        }
        if let Some(r) = Arc::get_mut(robot) {
            r.body.safety = cell2.safety.build();
            if let (Some(p), true) = (rc.move_env0, !case.cell.env.is_empty()) {
                r.body.collision_environment[0].pose = p.iso32();
            }
            let case2 = Case { cell: cell2, cfgs: vec![case.cfgs[0].clone()], reconfigure: None, ..case.clone() };
            for mut f in judge_phase(&case2, robot, &mut |_, out| observe(usize::MAX, out), &mut |_| {}) {
                f.clause = format!("{}/after-reconfiguration", f.clause);
                f.signature = format!("{}/after-reconfiguration", f.signature);
                fails.push(f);
            }
        }
    }
    fails
}

fn judge_phase(
    case: &Case,
    robot: &Arc<KinematicsWithShape>,
    observe: &mut dyn FnMut(usize, &SimOut<Offered>),
    stats: &mut dyn FnMut(&[(Tri, bool, bool)]),
) -> Vec<Fail> {
    let oc = OracleCell::new(&case.cell);
    let cands = candidates_of(case, &oc);
    stats(&cands.iter().map(|c| (c.legal, !c.colliding.is_empty(), c.dont_care)).collect::<Vec<_>>());
    let mut fails = Vec::new();
    let mut results: Vec<(usize, Vec<[f64; 6]>)> = Vec::new();
    for (ci, cfg) in case.cfgs.iter().enumerate() {
        let out = execute(robot, case, cfg);
        observe(ci, &out);
        let got = match &out.result {
            Err(abort) => {
                let (clause, msg) = match abort {
                    Abort::Panic(m) => ("f:panic", m.clone()),
                    Abort::Deadlock(m) => ("f:deadlock", m.clone()),
                    Abort::StepLimit(m) => ("f:step-limit", m.clone()),
                };
                fails.push(Fail { clause: clause.into(), signature: format!("C14/{clause}"), detail: msg, cfgs: vec![ci] });
                continue;
            }
            Ok(g) => {
                if let Some(k) = g.reported.iter().position(|r| *r) {
                    let b = oracle::brute_q(&oc, &g.v[k], &case.cell.safety);
                    if !b.any_dont_care() {
                        fails.push(Fail {
                            clause: "a:offered-but-reported-colliding".into(),
                            signature: "C14/offered-but-reported-colliding".into(),
                            detail: format!("offered vector #{k} {:?} is reported colliding by collides() of the same robot", g.v[k]),
                            cfgs: vec![ci],
                        });
                    }
                }
                g.v.clone()
            }
        };
        // sequence match against the candidate list
        let mut p = 0;
        for (k, c) in cands.iter().enumerate() {
            let offered = p < got.len() && same(&got[p], &c.q);
            if offered {
                p += 1;
                if c.legal == Tri::No {
                    fails.push(Fail {
                        clause: "a:offered-out-of-limits".into(),
                        signature: "C14/offered-out-of-limits".into(),
                        detail: format!("candidate #{k} (joint {} -> {}) is outside the joint limits but was offered", c.joint + 1, c.q[c.joint]),
                        cfgs: vec![ci],
                    });
                }
                if !c.colliding.is_empty() {
                    let shapes: BTreeSet<&str> = c.colliding.iter().map(|p| pair_shape(c.joint, p.0, p.1)).collect();
                    let shape = shapes.iter().cloned().collect::<Vec<_>>().join("+");
                    fails.push(Fail {
                        clause: "a:offered-colliding".into(),
                        signature: format!("C14/offered-colliding/{shape}"),
                        detail: format!(
                            "candidate #{k} (joint {} moved to {:.4}) collides on pairs {:?} but was offered",
                            c.joint + 1,
                            c.q[c.joint],
                            c.colliding
                        ),
                        cfgs: vec![ci],
                    });
                }
            } else if c.legal == Tri::Yes && c.colliding.is_empty() && !c.dont_care {
                fails.push(Fail {
                    clause: "b:withheld".into(),
                    signature: "C14/withheld".into(),
                    detail: format!("candidate #{k} (joint {} moved to {:.4}) is within limits and collision-free but was not offered", c.joint + 1, c.q[c.joint]),
                    cfgs: vec![ci],
                });
            }
        }
        if p < got.len() {
            fails.push(Fail {
                clause: "c:not-a-candidate".into(),
                signature: "C14/not-a-candidate".into(),
                detail: format!("returned vector #{p} {:?} is not the next single-joint candidate (wrong value, order or duplicate)", got[p]),
                cfgs: vec![ci],
            });
        }
        results.push((ci, got));
    }
    if results.len() >= 2 {
        let (i0, r0) = &results[0];
        for (ik, rk) in &results[1..] {
            let eq = r0.len() == rk.len() && r0.iter().zip(rk).all(|(a, b)| same(a, b));
            if !eq {
                fails.push(Fail {
                    clause: "d:schedule-dependent".into(),
                    signature: "C14/schedule-dependent".into(),
                    detail: format!("result differs between schedules/pool sizes: {} vs {} vectors", r0.len(), rk.len()),
                    cfgs: vec![*i0, *ik],
                });
            }
        }
    }
    fails
}

fn drop_env(case: &Case, k: usize) -> Case {
    let mut c = case.clone();
    c.cell.env.remove(k);
    c.cell.safety.special.retain(|s| s.0 as usize != ENV0 + k && s.1 as usize != ENV0 + k);
    for s in c.cell.safety.special.iter_mut() {
        if s.0 as usize > ENV0 + k {
            s.0 -= 1;
        }
        if s.1 as usize > ENV0 + k {
            s.1 -= 1;
        }
    }
    c
}

fn simplifications(case: &Case) -> Vec<Case> {
    let mut out = Vec::new();
    if case.via_pool > 0 {
        let mut c = case.clone();
        c.via_pool -= 1;
        out.push(c);
    }
    if case.second_call {
        let mut c = case.clone();
        c.second_call = false;
        out.push(c);
    }
    if case.reconfigure.is_some() {
        let mut c = case.clone();
        c.reconfigure = None;
        out.push(c);
    }
    if case.cfgs.len() > 2 {
        for i in 0..case.cfgs.len() {
            let mut c = case.clone();
            c.cfgs.remove(i);
            out.push(c);
        }
    }
    for k in 0..case.cell.env.len() {
        out.push(drop_env(case, k));
    }
    for i in 0..case.cell.safety.special.len() {
        let mut c = case.clone();
        c.cell.safety.special.remove(i);
        out.push(c);
    }
    if case.cell.tool.is_some() {
        let mut c = case.clone();
        c.cell.tool = None;
        c.cell.safety.special.retain(|s| s.0 as usize != J_TOOL && s.1 as usize != J_TOOL);
        out.push(c);
    }
    if case.cell.base.is_some() {
        let mut c = case.clone();
        c.cell.base = None;
        c.cell.safety.special.retain(|s| s.0 as usize != J_BASE && s.1 as usize != J_BASE);
        out.push(c);
    }
    if case.cell.limits.is_some() {
        let mut c = case.clone();
        c.cell.limits = None;
        out.push(c);
    }
    // make from/to equal to initial for joints that do not matter
    for j in 0..6 {
        if case.from[j] != case.initial[j] || case.to[j] != case.initial[j] {
            let mut c = case.clone();
            c.from[j] = case.initial[j];
            c.to[j] = case.initial[j];
            out.push(c);
        }
    }
    for i in 0..case.cfgs.len() {
        for s in minimise::simpler_cfgs(&case.cfgs[i]) {
            let mut c = case.clone();
            c.cfgs[i] = s;
            out.push(c);
        }
    }
    out
}

fn minimise_case(case: &Case, clause: &str, signature: &str) -> Case {
    let mut still = |c: &Case| judge(c).iter().any(|f| f.clause == clause && f.signature == signature);
    let mut cur = minimise::greedy(case.clone(), &simplifications, &mut still, 100);
    for i in 0..cur.cfgs.len() {
        let robot = Arc::new(cur.cell.build_robot());
        let out = execute(&robot, &cur, &cur.cfgs[i]);
        let mut trial = cur.clone();
        trial.cfgs[i] = minimise::with_replay(&cur.cfgs[i], out.schedule.clone(), Some(out.rng_record.clone()));
        if !still(&trial) {
            continue;
        }
        let base = trial.clone();
        let shrunk = minimise::shrink_schedule(
            &out.schedule,
            &mut |l: &[u32]| {
                let mut t = base.clone();
                t.cfgs[i].sched = SchedSpec::Replay(l.to_vec());
                still(&t)
            },
            40,
        );
        trial.cfgs[i].sched = SchedSpec::Replay(shrunk);
        cur = trial;
    }
    cur
}

pub fn replay_all(case: &Value) -> Vec<(String, String)> {
    match serde_json::from_value::<Case>(case.clone()) {
        Ok(c) => judge(&c).into_iter().map(|f| (f.clause, f.detail)).collect(),
        Err(e) => vec![("harness:bad-case".into(), e.to_string())],
    }
}

pub struct Tier {
    pub shards: usize,
    pub per_shard: usize,
    pub schedules: usize,
    pub max_sub: u8,
}

pub fn tier(name: &str) -> Tier {
    match name {
        "thorough" => Tier { shards: 256, per_shard: 150, schedules: 8, max_sub: 5 },
        "smoke" => Tier { shards: 4, per_shard: 8, schedules: 3, max_sub: 3 },
        _ => Tier { shards: 32, per_shard: 40, schedules: 3, max_sub: 3 },
    }
}

pub fn gen_case(seed: u64, shard: u64, run: u64, t: &Tier) -> Option<Case> {
    let mut w = Rng::derive(seed, shard, run, "c14.workload");
    let mut knobs = Rng::derive(seed, shard, run, "c14.knobs");
    let k = CellKnobs {
        tool_p: 0.7,
        base_p: 0.7,
        max_env: if knobs.chance(0.06) { 12 } else { 3 },
        max_sub: t.max_sub,
        limits: if knobs.chance(0.25) { LimitKind::None } else { *knobs.pick(&[LimitKind::Narrow, LimitKind::Narrow, LimitKind::Wide, LimitKind::Wrapping]) },
        ctor: Ctor::Direct,
        touch_only: false,
        sparse: knobs.chance(0.7),
    };
    let mut cell = gen::gen_robot(&mut w, &k);
    {
        // the last link need not be a body of revolution: a finger bar that is part of link 6
        let mut fb = Rng::derive(seed, shard, run, "c14.finger");
        if fb.chance(if cell.tool.is_none() { 0.5 } else { 0.1 }) {
            let r = fb.range_f64(0.02, 0.05) as f32;
            let reach = fb.range_f64(0.12, 0.3) as f32;
            cell.links[5] = MeshSpec::cube([0.4 * r, reach * 0.5, 0.012], [0.0, reach * 0.45, 0.0], 1);
        }
    }
    cell.safety = gen::gen_safety(&mut w, cell.tool.is_some(), cell.base.is_some(), k.max_env, false, k.sparse);
    // no-check mode is part of the property's domain: the robot's full check then reports every
    // posture free, so every legal candidate has to be offered
    if cell.safety.mode == Mode::NoCheck && knobs.chance(0.5) {
        cell.safety.mode = Mode::First;
    }
    // obstacles are placed around a NEIGHBOUR of the initial posture, so that single-joint
    // moves swing bodies into / next to them
    let probe = gen::gen_posture(&mut w, &cell.limits);
    gen::add_environment(&mut w, &mut cell, &probe, &k);
    let n_env = cell.env.len();
    cell.safety.special.retain(|s| (s.0 as usize) < ENV0 + n_env && (s.1 as usize) < ENV0 + n_env);
    let oc = OracleCell::new(&cell);
    // collision-free, legal initial posture by rejection against the oracle
    let mut initial = None;
    for attempt in 0..60 {
        let mut q = if attempt % 2 == 0 { probe } else { gen::gen_posture(&mut w, &cell.limits) };
        if attempt % 2 == 0 {
            // move a few joints away from the probe posture
            for _ in 0..w.range_usize(1, 3) {
                let j = w.below(6);
                q[j] += w.range_f64(-1.2, 1.2);
            }
        }
        if let Some((f, t)) = &cell.limits {
            if oracle::within_limits(&q, f, t, 1e-6) != Tri::Yes {
                continue;
            }
        }
        let b = oracle::brute_q(&oc, &q, &cell.safety);
        if !b.any_definite() && !b.any_dont_care() {
            initial = Some(q);
            break;
        }
    }
    let initial = initial?;
    let mut from = initial;
    let mut to = initial;
    for j in 0..6 {
        let d = match w.below(4) {
            0 => w.range_f64(0.5, 3.0f64).to_radians(),
            1 => w.range_f64(3.0, 20.0f64).to_radians(),
            2 => w.range_f64(20.0, 90.0f64).to_radians(),
            _ => (probe[j] - initial[j]).abs().max(0.01),
        };
        from[j] = initial[j] - d;
        to[j] = initial[j] + if w.chance(0.8) { d } else { w.range_f64(0.01, 1.5) };
    }
    // the initial vector itself may violate ONE limit (a robot jogged past a soft limit): the
    // candidates that bring that joint back inside are legal, all others are not
    let mut initial = initial;
    if let Some((lf, lt)) = &cell.limits {
        let mut ob = Rng::derive(seed, shard, run, "c14.initial-outside");
        if ob.chance(0.12) {
            for _ in 0..8 {
                let k = ob.below(6);
                if !(lf[k] < lt[k]) || lt[k] - lf[k] > 5.0 {
                    continue;
                }
                let beyond = ob.range_f64(0.02, 0.3);
                let mut q = initial;
                q[k] = if ob.chance(0.5) { lt[k] + beyond } else { lf[k] - beyond };
                if oracle::on_arc(q[k], lf[k], lt[k], 1e-6) != Tri::No {
                    continue;
                }
                let b = oracle::brute_q(&oc, &q, &cell.safety);
                if b.any_definite() || b.any_dont_care() {
                    continue;
                }
                initial = q;
                // targets for that joint: inside the limits (both, one, or none of them)
                let w_ = lt[k] - lf[k];
                from[k] = if ob.chance(0.8) { lf[k] + w_ * ob.range_f64(0.05, 0.45) } else { lf[k] - 0.1 };
                to[k] = if ob.chance(0.8) { lf[k] + w_ * ob.range_f64(0.55, 0.95) } else { lt[k] + 0.1 };
                break;
            }
        }
    }
    // coincidences and far-away spellings of the target values
    for j in 0..6 {
        match w.below(30) {
            0 => from[j] = initial[j],
            1 => to[j] = initial[j],
            2 => {
                from[j] = initial[j];
                to[j] = initial[j];
            }
            // the same angle two or three turns away (legal iff it is legal modulo a full turn)
            3 => to[j] += 4.0 * std::f64::consts::PI * if w.chance(0.5) { 1.0 } else { -1.0 },
            4 => from[j] -= 6.0 * std::f64::consts::PI * if w.chance(0.5) { 1.0 } else { -1.0 },
            _ => {}
        }
    }
    let mut cfgs = Vec::new();
    for s in 0..t.schedules {
        let sched_seed = simctx::mix(&[seed, shard, run, s as u64, simctx::name_hash("c14.sched")]);
        cfgs.push(SimCfg::swarm(&mut knobs, sched_seed, 0, 400_000));
    }
    let second_call = knobs.chance(0.3);
    let reconfigure = if knobs.chance(0.35) {
        let n_env = cell.env.len();
        let mut t2 = gen::gen_safety(&mut w, cell.tool.is_some(), cell.base.is_some(), n_env, false, knobs.chance(0.5));
        t2.special.retain(|s| (s.0 as usize) < ENV0 + n_env && (s.1 as usize) < ENV0 + n_env);
        if t2.mode == Mode::NoCheck && knobs.chance(0.5) {
            t2.mode = Mode::First;
        }
        // half of the time the SAME table retuned (same keys, same counts, other values)
        let same_shape = knobs.chance(0.5);
        let mut lifted = false;
        if same_shape && knobs.chance(0.6) {
            // guided: in the first phase exactly the pairs that make some candidate collide are
            // exempt (the candidate is legal and free: it must be offered); in the second phase
            // the exemption is lifted by overwriting the values of the same keys
            let mut order: Vec<usize> = (0..12).collect();
            for i in (1..order.len()).rev() {
                order.swap(i, w.below(i + 1));
            }
            for c in order {
                let j = c / 2;
                let mut q = initial;
                q[j] = if c % 2 == 0 { from[j] } else { to[j] };
                let b = oracle::brute_q(&oc, &q, &cell.safety);
                let pairs = b.definite();
                if pairs.is_empty() || pairs.len() > 4 || b.any_dont_care() {
                    continue;
                }
                let (mut first, mut second) = (cell.safety.clone(), cell.safety.clone());
                for (a, bb) in pairs {
                    let d = cell.safety.distance(a, bb);
                    first.special.retain(|s| !((s.0 as usize, s.1 as usize) == (a, bb) || (s.0 as usize, s.1 as usize) == (bb, a)));
                    second.special.retain(|s| !((s.0 as usize, s.1 as usize) == (a, bb) || (s.0 as usize, s.1 as usize) == (bb, a)));
                    first.special.push((a as u16, bb as u16, NEVER));
                    second.special.push((a as u16, bb as u16, d));
                }
                cell.safety = first;
                t2 = second;
                lifted = true;
                break;
            }
        }
        if same_shape && !lifted {
            t2 = gen::retune_safety(&mut w, &cell.safety);
        }
        // move the first obstacle onto (or away from) where a candidate puts the robot
        let move_env0 = if n_env > 0 && !lifted && knobs.chance(if same_shape { 0.3 } else { 0.7 }) {
            let mut q = initial;
            let j = w.below(6);
            q[j] = if w.chance(0.5) { from[j] } else { to[j] };
            let poses = oracle::link_poses(&oc, &q);
            let k = w.range_usize(2, 5);
            let c = poses[k].translation.vector;
            Some(PoseSpec { t: [c.x as f64 + w.range_f64(-0.05, 0.05), c.y as f64 + w.range_f64(-0.05, 0.05), c.z as f64 + w.range_f64(-0.05, 0.05)], rpy: [0.0; 3] })
        } else {
            None
        };
        Some(Reconf { safety: t2, move_env0 })
    } else {
        None
    };
    // calls made by pool workers (a fifth of the scenarios that observe the first call)
    let via_pool = {
        let mut v = Rng::derive(seed, shard, run, "c14.via-pool");
        if !second_call && v.chance(0.2) { v.range_usize(1, 4) } else { 0 }
    };
    Some(Case { cell, initial, from, to, cfgs, second_call, via_pool, reconfigure })
}

pub fn run(tier_name: &str, seed: u64) -> i32 {
    let t = tier(tier_name);
    let started = std::time::Instant::now();
    let tally = report::run_shards(t.shards, |shard| {
        let mut tally = Tally::default();
        for run in 0..t.per_shard {
            report::progress(shard, run);
            let Some(case) = gen_case(seed, shard as u64, run as u64, &t) else {
                tally.bump("scenarios_without_free_initial_posture", 1);
                continue;
            };
            let mut robot = Arc::new(case.cell.build_robot());
            if case.via_pool > 0 {
                tally.bump("scenarios_with_calls_made_by_pool_workers", 1);
            }
            if case.second_call {
                tally.bump("history_scenarios_observing_a_second_call", 1);
            }
            let scen_hash = simctx::name_hash(&serde_json::to_string(&(&case.cell, &case.initial, &case.from, &case.to)).unwrap());
            let mut cstats: Vec<(String, u64)> = Vec::new();
            let mut sample: Option<Value> = None;
            let fails = judge_with(
                &case,
                &mut robot,
                &mut |ci, out| {
                    tally.evaluations += 1;
                    if ci == usize::MAX {
                        tally.bump("history_request_repeated_after_reconfiguration", 1);
                        return;
                    }
                    let c = &out.counters;
                    tally.bump("sched_steps", c.steps);
                    tally.max("max_sched_steps_in_one_execution", c.steps);
                    tally.bump("sched_branching_points", c.branching);
                    tally.max("max_runnable_tasks", c.max_runnable as u64);
                    tally.bump("par_calls", c.n_par_calls);
                    tally.bump("work_steals_while_blocked_ran", c.n_steals_ran);
                    tally.bump("par_calls_nested", c.n_nested);
                    tally.bump("par_calls_multiworker", c.n_par_multiworker);
                    tally.bump("find_any_races", c.n_find_any_races);
                    tally.bump("find_any_races_with_several_hits", c.n_find_any_multi);
                    tally.bump(&format!("pool_size_{:02}", case.cfgs[ci].pool), 1);
                    if let SchedSpec::Seeded { flavour: sim::Flavour::Starve(_), .. } = &case.cfgs[ci].sched {
                        tally.bump("fault_starved_worker", 1);
                    }
                    if c.branching > 0 {
                        tally.distinct.insert(((scen_hash as u128) << 64) | c.sched_sig as u128);
                    }
                    if let Ok(got) = &out.result {
                        let got = &got.v;
                        tally.bump("offered_vectors", got.len() as u64);
                        if sample.is_none() && ci == 0 {
                            sample = Some(json!({
                                "pool": case.cfgs[ci].pool, "sched": format!("{:?}", case.cfgs[ci].sched),
                                "initial": case.initial, "from": case.from, "to": case.to,
                                "limits": case.cell.limits, "env_bodies": case.cell.env.len(),
                                "tool": case.cell.tool.is_some(), "base": case.cell.base.is_some(),
                                "offered": got.len(), "schedule_prefix": out.schedule.iter().take(24).collect::<Vec<_>>(),
                                "log_hash": out.log.hex(),
                            }));
                        }
                    }
                },
                &mut |cs| {
                    for (legal, colliding, dc) in cs {
                        let k = match (legal, colliding, dc) {
                            (Tri::No, _, _) => "candidates_out_of_limits",
                            (Tri::DontCare, _, _) => "candidates_limit_dont_care",
                            (_, true, _) => "candidates_colliding",
                            (_, false, true) => "candidates_collision_dont_care",
                            _ => "candidates_free_and_legal",
                        };
                        cstats.push((k.into(), 1));
                    }
                },
            );
            for (k, v) in cstats {
                tally.bump(&k, v);
            }
            if let Some(s) = sample {
                if tally.samples.len() < 2 {
                    tally.samples.push(s);
                }
            }
            let mut seen = BTreeSet::new();
            for f in fails {
                if !seen.insert((f.clause.clone(), f.signature.clone())) || !tally.first_few(&f.clause, &f.signature, 2) {
                    continue;
                }
                tally.bump("raw_failures", 1);
                let mut small = case.clone();
                small.cfgs = f.cfgs.iter().map(|&i| case.cfgs[i].clone()).collect();
                let has = |c: &Case| judge(c).iter().any(|g| g.clause == f.clause && g.signature == f.signature);
                let start = if has(&small) { small } else { case.clone() };
                let min = minimise_case(&start, &f.clause, &f.signature);
                let detail = judge(&min)
                    .into_iter()
                    .find(|g| g.clause == f.clause && g.signature == f.signature)
                    .map(|g| g.detail)
                    .unwrap_or(f.detail.clone());
                tally.violations.push(Violation {
                    property: "C14".into(),
                    clause: f.clause.clone(),
                    signature: f.signature.clone(),
                    detail,
                    case: json!({"check": "C14", "case": min}),
                    origin: Some((shard, run)),
                });
            }
        }
        tally
    });
    let wall = started.elapsed().as_secs_f64();
    let meta = CheckMeta {
        property: "C14",
        tier: if tier_name == "thorough" { "thorough" } else { "quick" },
        seed,
        level: "exploration",
        rule: "one evaluation = one simulated execution of non_colliding_offsets (12 outer parallel tasks, each with a nested parallel collision search) for one generated cell, collision-free initial posture and from/to vectors under one seeded schedule and pool size. distinct_nontrivial counts distinct (scenario hash, schedule signature) pairs with at least one scheduling decision among >= 2 runnable tasks.",
        assumptions: vec![
            "parry3d queries and forward_with_joint_poses are trusted by the oracle".into(),
            "rayon is a contract model (sim-rayon); nested parallel iterators spawn nested simulated workers".into(),
            "limits with from == to are not generated (their meaning is property C07's subject); no-check mode is not generated".into(),
        ],
        components: json!({
            "real": ["/repo/src (collisions.rs, kinematics_with_shape.rs, constraints.rs, kinematics_impl.rs, tool.rs)", "parry3d", "nalgebra"],
            "stub_contract_model": ["rayon (sim-rayon)"],
            "simulator": ["shuttle tasks + opwsim SeededScheduler"],
        }),
        exhaustive: false,
    };
    report::finish(meta, tally, wall, &|v| replay_all(&v["case"]), &|shard, run| case_json(tier_name, seed, shard, run))
}


pub fn digest(seed: u64, i: u64) -> Vec<String> {
    let t = tier("quick");
    let Some(case) = gen_case(seed, 9000 + i % 5, i, &t) else { return vec![format!("C14 {i} - no-case")] };
    let robot = Arc::new(case.cell.build_robot());
    case.cfgs
        .iter()
        .enumerate()
        .map(|(j, cfg)| {
            let out = execute(&robot, &case, cfg);
            format!("C14 {i} {j} {} {:016x} {}", out.log.hex(), simctx::name_hash(&format!("{:?}", out.result)), out.schedule.len())
        })
        .collect()
}

pub fn case_json(tier_name: &str, seed: u64, shard: usize, run: usize) -> Option<Value> {
    let t = tier(tier_name);
    gen_case(seed, shard as u64, run as u64, &t).map(|c| json!({"check": "C14", "case": c}))
}
