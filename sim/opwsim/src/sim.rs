//! The simulator proper: a seeded scheduler over shuttle tasks, a replay scheduler, and
//! `simulate`, which runs one closure as one deterministic execution and hands back everything
//! needed to judge, hash, replay and minimise it.

use serde::{Deserialize, Serialize};
use shuttle::scheduler::{Schedule, Scheduler, Task, TaskId};
use simctx::{Ctx, LogHash, Outcome, Rng, RngPlan, TakePolicy};
use std::cell::RefCell;
use std::panic::{catch_unwind, AssertUnwindSafe};
use std::sync::mpsc::{channel, Receiver, Sender};
use std::sync::{Arc, Mutex};

// ---------------------------------------------------------------------------------------------
// Specification of one execution (all explicit data: this is what a replay file stores)
// ---------------------------------------------------------------------------------------------

#[derive(Clone, Copy, Debug, Serialize, Deserialize, PartialEq)]
pub enum Flavour {
    /// any runnable task, uniformly
    Uniform,
    /// stay on the current task with probability p (percent)
    Sticky(u8),
    /// PCT: random priorities, `d` priority-drop points in the first `horizon` steps
    Pct { d: u8, horizon: u32 },
    /// the n-th task ever seen (by id) is never chosen while another task is runnable
    Starve(u32),
}

#[derive(Clone, Debug, Serialize, Deserialize, PartialEq)]
pub enum SchedSpec {
    Seeded { seed: u64, flavour: Flavour },
    /// explicit list of task ids, one per scheduling decision
    Replay(Vec<u32>),
}

#[derive(Clone, Copy, Debug, Serialize, Deserialize, PartialEq)]
pub enum Take {
    Front,
    Back,
    Random,
    Chunks,
}
impl Take {
    fn to_ctx(self) -> TakePolicy {
        match self {
            Take::Front => TakePolicy::Front,
            Take::Back => TakePolicy::Back,
            Take::Random => TakePolicy::Random,
            Take::Chunks => TakePolicy::Chunks,
        }
    }
}

/// Serializable mirror of simctx::Outcome.
#[derive(Clone, Copy, Debug, Serialize, Deserialize, PartialEq)]
pub enum Out {
    U(f64),
    Low,
    HighMinus,
    Abs(f64),
}
impl Out {
    pub fn to_ctx(self) -> Outcome {
        match self {
            Out::U(u) => Outcome::U(u),
            Out::Low => Outcome::Low,
            Out::HighMinus => Outcome::HighMinus,
            Out::Abs(v) => Outcome::Abs(v),
        }
    }
    pub fn from_ctx(o: Outcome) -> Out {
        match o {
            Outcome::U(u) => Out::U(u),
            Outcome::Low => Out::Low,
            Outcome::HighMinus => Out::HighMinus,
            Outcome::Abs(v) => Out::Abs(v),
        }
    }
}

#[derive(Clone, Debug, Serialize, Deserialize, PartialEq)]
pub enum RngSpec {
    /// outcomes from a stream; `adversarial` = fraction replaced by legal boundary outcomes;
    /// `abs[k][i]` are absolute target values for draw number n with i = n % period
    Stream { seed: u64, adversarial: f64, abs: Vec<Vec<f64>>, period: usize },
    /// explicit outcomes; afterwards U(0.5)
    List(Vec<Out>),
}

#[derive(Clone, Debug, Serialize, Deserialize, PartialEq)]
pub struct SimCfg {
    /// modelled rayon pool size, 1..=16
    pub pool: usize,
    pub take: Take,
    /// nested parallel iterators spawn their own workers
    pub inner_full: bool,
    pub sched: SchedSpec,
    pub rng: RngSpec,
    /// seed of the stubs' auxiliary stream (find_any winner, random take)
    pub aux_seed: u64,
    pub max_steps: usize,
    /// simulated worker tasks one execution may spawn before parallel iterators fall back to
    /// running in order on the calling task (the OS limits the number of stack mappings)
    #[serde(default = "default_spawn_budget")]
    pub spawn_budget: u64,
    /// simulated clock: tick per scheduling decision / clock read, and injected leaps
    #[serde(default)]
    pub clock: ClockSpec,
    /// a pool thread that is blocked on nested parallel work runs further items of the enclosing
    /// parallel iterator meanwhile (rayon's work stealing while blocked): re-entrancy on one thread
    #[serde(default)]
    pub steal: bool,
}

#[derive(Clone, Debug, Serialize, Deserialize, PartialEq)]
pub struct ClockSpec {
    pub tick_ns: u64,
    /// (index of the clock read, leap in nanoseconds)
    pub jumps: Vec<(u64, u64)>,
}

impl Default for ClockSpec {
    fn default() -> Self {
        ClockSpec { tick_ns: 1_000, jumps: Vec::new() }
    }
}

fn default_spawn_budget() -> u64 {
    800
}

impl SimCfg {
    pub fn sequential() -> SimCfg {
        SimCfg {
            pool: 1,
            take: Take::Front,
            inner_full: false,
            sched: SchedSpec::Seeded { seed: 0, flavour: Flavour::Uniform },
            rng: RngSpec::Stream { seed: 0, adversarial: 0.0, abs: vec![], period: 6 },
            aux_seed: 0,
            max_steps: 2_000_000,
            spawn_budget: default_spawn_budget(),
            clock: ClockSpec::default(),
            steal: false,
        }
    }

    /// Swarm-style random configuration drawn from the `knobs` and `sched` streams.
    pub fn swarm(knobs: &mut Rng, sched_seed: u64, rng_seed: u64, max_steps: usize) -> SimCfg {
        let pool = match knobs.below(20) {
            0 | 1 => 1,
            2 | 3 => 2,
            4 | 5 => 16,
            // more workers than cores, and usually than items
            6 => *knobs.pick(&[17usize, 32, 64]),
            _ => knobs.range_usize(1, 16),
        };
        let take = *knobs.pick(&[Take::Front, Take::Back, Take::Random, Take::Chunks, Take::Chunks]);
        let flavour = match knobs.below(8) {
            0 | 1 | 2 => Flavour::Uniform,
            3 | 4 => Flavour::Sticky(*knobs.pick(&[50u8, 80, 95])),
            5 | 6 => Flavour::Pct { d: knobs.range_usize(1, 4) as u8, horizon: *knobs.pick(&[50u32, 200, 1000]) },
            _ => Flavour::Starve(knobs.range_usize(1, 8) as u32),
        };
        SimCfg {
            pool,
            take,
            inner_full: true,
            sched: SchedSpec::Seeded { seed: sched_seed, flavour },
            rng: RngSpec::Stream { seed: rng_seed, adversarial: 0.0, abs: vec![], period: 6 },
            aux_seed: simctx::mix(&[sched_seed, 0xA0C5]),
            max_steps,
            spawn_budget: default_spawn_budget(),
            clock: {
                // slow / fast clocks, and now and then a leap (a suspended VM, an NTP step on a
                // badly chosen clock): deadlines in the code under test fire early or late
                let tick_ns = *knobs.pick(&[100u64, 1_000, 10_000, 1_000_000]);
                let jumps = if knobs.chance(0.1) {
                    vec![(knobs.below(40) as u64, *knobs.pick(&[1_000_000_000u64, 60_000_000_000, 3_600_000_000_000]))]
                } else {
                    Vec::new()
                };
                ClockSpec { tick_ns, jumps }
            },
            steal: knobs.chance(0.6),
        }
    }
}

// ---------------------------------------------------------------------------------------------
// Scheduler
// ---------------------------------------------------------------------------------------------

#[derive(Default, Debug)]
struct SchedRecord {
    choices: Vec<u32>,
    /// number of decisions with >= 2 runnable tasks
    branching: u64,
    max_runnable: usize,
    /// hash over decisions at branching points only (schedule signature)
    sig: u64,
    diverged: bool,
    step_limited: bool,
}

/// Decision state for one execution.
struct Decider {
    spec: SchedSpec,
    rng: Rng,
    step: usize,
    max_steps: usize,
    // PCT state
    prio: Vec<u64>,
    drops: Vec<usize>,
    low: u64,
    rec: SchedRecord,
}

impl Decider {
    fn new(spec: SchedSpec, max_steps: usize) -> Self {
        let seed = match &spec {
            SchedSpec::Seeded { seed, .. } => *seed,
            SchedSpec::Replay(_) => 0,
        };
        let mut rng = Rng::new(simctx::mix(&[seed, 0x5C4ED]));
        let mut drops = Vec::new();
        if let SchedSpec::Seeded { flavour: Flavour::Pct { d, horizon }, .. } = &spec {
            for _ in 0..*d {
                drops.push(rng.below((*horizon).max(1) as usize));
            }
        }
        Decider { spec, rng, step: 0, max_steps, prio: Vec::new(), drops, low: 0, rec: SchedRecord::default() }
    }

    fn prio_of(&mut self, id: usize) -> u64 {
        while self.prio.len() <= id {
            // high random priorities; dropped tasks get small descending ones
            let p = (self.rng.next_u64() >> 1) | (1 << 62);
            self.prio.push(p);
        }
        self.prio[id]
    }

    fn next(&mut self, runnable: &[&Task], current: Option<TaskId>) -> Option<TaskId> {
        let step = self.step;
        self.step += 1;
        if step >= self.max_steps {
            self.rec.step_limited = true;
            if std::env::var_os("OPWSIM_LOUD").is_some() {
                eprintln!("opwsim: step limit {} reached", self.max_steps);
            }
            return None;
        }
        let n = runnable.len();
        let mut diverged = false;
        let chosen: TaskId = match &self.spec {
            SchedSpec::Replay(list) => {
                let want = list.get(step).copied();
                match want.and_then(|w| runnable.iter().find(|t| usize::from(t.id()) == w as usize)) {
                    Some(t) => t.id(),
                    None => {
                        if want.is_some() {
                            diverged = true;
                        }
                        fallback(runnable, current)
                    }
                }
            }
            SchedSpec::Seeded { flavour, .. } => {
                if n == 1 {
                    runnable[0].id()
                } else {
                    match *flavour {
                        Flavour::Uniform => runnable[self.rng.below(n)].id(),
                        Flavour::Sticky(p) => {
                            let stay = self.rng.below(100) < p as usize;
                            match current {
                                Some(c) if stay && runnable.iter().any(|t| t.id() == c) => c,
                                _ => runnable[self.rng.below(n)].id(),
                            }
                        }
                        Flavour::Pct { .. } => {
                            if self.drops.contains(&step) {
                                if let Some(c) = current {
                                    let id = usize::from(c);
                                    self.prio_of(id);
                                    self.low += 1;
                                    // lower than every fresh priority, later drops lower still
                                    self.prio[id] = (1 << 20) - self.low.min(1 << 19);
                                }
                            }
                            let mut best = runnable[0].id();
                            let mut bp = 0u64;
                            for t in runnable {
                                let p = self.prio_of(usize::from(t.id()));
                                if p >= bp {
                                    bp = p;
                                    best = t.id();
                                }
                            }
                            best
                        }
                        Flavour::Starve(victim) => {
                            let others: Vec<TaskId> =
                                runnable.iter().map(|t| t.id()).filter(|id| usize::from(*id) != victim as usize).collect();
                            if others.is_empty() {
                                runnable[0].id()
                            } else {
                                others[self.rng.below(others.len())]
                            }
                        }
                    }
                }
            }
        };
        let cid = usize::from(chosen) as u32;
        let r = &mut self.rec;
        r.choices.push(cid);
        r.max_runnable = r.max_runnable.max(n);
        if n >= 2 {
            r.branching += 1;
            let mut s = r.sig ^ ((cid as u64) << 32 | n as u64);
            r.sig = simctx::splitmix64(&mut s);
        }
        r.diverged |= diverged;
        simctx::log(simctx::EV_SCHED, cid as u64, n as u64);
        simctx::with(|c| c.clock_ns = c.clock_ns.saturating_add(c.clock_tick_ns));
        Some(chosen)
    }
}

fn fallback(runnable: &[&Task], current: Option<TaskId>) -> TaskId {
    if let Some(c) = current {
        if runnable.iter().any(|t| t.id() == c) {
            return c;
        }
    }
    runnable.iter().map(|t| t.id()).min().unwrap()
}

// ---------------------------------------------------------------------------------------------
// The engine: one long-lived shuttle Runner per driver thread
// ---------------------------------------------------------------------------------------------
//
// shuttle allocates a coroutine stack per spawned task and only recycles stacks between the
// executions of ONE `Runner::run` call. So the engine keeps one `Runner::run` alive on a
// companion OS thread and feeds it executions: the scheduler's `new_execution` blocks until the
// driver sends the next job. Exactly one of the two threads runs at any time; everything that
// decides the execution (context, scheduler state) is (re)initialised from the job's explicit
// configuration, so an execution does not depend on what ran before it (the determinism
// self-test checks exactly that).

#[derive(Clone, Debug, PartialEq)]
pub enum Abort {
    /// the code under test (or the harness inside the run) panicked
    Panic(String),
    /// no runnable task but unfinished tasks
    Deadlock(String),
    /// scheduler step budget exceeded
    StepLimit(String),
}

#[derive(Debug, Clone, Default)]
pub struct Counters {
    pub steps: u64,
    pub branching: u64,
    pub max_runnable: usize,
    pub sched_sig: u64,
    pub n_rng: u64,
    pub n_rng_adversarial: u64,
    pub n_par_calls: u64,
    pub n_par_items: u64,
    pub n_par_multiworker: u64,
    pub n_find_any_races: u64,
    pub n_find_any_multi: u64,
    pub n_skipped_after_found: u64,
    pub max_workers: usize,
    pub n_nested: u64,
    pub replay_diverged: bool,
    pub n_clock_reads: u64,
    pub n_clock_jumps_fired: u64,
    /// simulated time at the end of the execution (ns)
    pub clock_ns: u64,
    pub n_steals_attempted: u64,
    pub n_steals_ran: u64,
}

pub struct SimOut<R> {
    pub result: Result<R, Abort>,
    pub schedule: Vec<u32>,
    pub rng_record: Vec<Out>,
    pub log: LogHash,
    pub counters: Counters,
}

type Body = Arc<dyn Fn() + Send + Sync + 'static>;

struct Job {
    cfg: SimCfg,
    body: Body,
}

struct Done {
    abort: Option<Abort>,
    completed: bool,
    rec: SchedRecord,
    ctx: Ctx,
}

struct Current {
    body: Body,
    decider: Decider,
    completed: bool,
}

struct EngineSide {
    jobs: Receiver<Job>,
    done: Sender<Done>,
    cur: Option<Current>,
}

thread_local! {
    static LAST_PANIC: RefCell<Option<String>> = const { RefCell::new(None) };
    /// when > 0, panics on this thread are expected (captured, not printed)
    static QUIET: RefCell<u32> = const { RefCell::new(0) };
    /// engine thread only
    static ENGINE_SIDE: RefCell<Option<EngineSide>> = const { RefCell::new(None) };
    /// driver thread only
    static ENGINE: RefCell<Option<EngineHandle>> = const { RefCell::new(None) };
}

struct EngineHandle {
    jobs: Sender<Job>,
    done: Receiver<Done>,
}

/// Install a process-wide panic hook that records the message per thread and prints only when
/// the panic is not one the simulator is prepared to catch.
pub fn install_panic_hook() {
    std::panic::set_hook(Box::new(|info| {
        let msg = if let Some(s) = info.payload().downcast_ref::<&str>() {
            s.to_string()
        } else if let Some(s) = info.payload().downcast_ref::<String>() {
            s.clone()
        } else {
            "<non-string panic payload>".to_string()
        };
        let loc = info.location().map(|l| format!("{}:{}", l.file(), l.line())).unwrap_or_default();
        let quiet = QUIET.with(|q| *q.borrow() > 0) && std::env::var_os("OPWSIM_LOUD").is_none();
        LAST_PANIC.with(|p| {
            let mut p = p.borrow_mut();
            // keep the FIRST panic of a run: shuttle re-panics with its own wrapper message later
            if p.is_none() {
                *p = Some(format!("{msg} @ {loc}"));
            }
        });
        if !quiet {
            if std::env::var_os("OPWSIM_BACKTRACE").is_some() {
                eprintln!("{}", std::backtrace::Backtrace::force_capture());
            }
            eprintln!("opwsim: panic: {msg} @ {loc}");
        }
    }));
}

pub fn quiet_panics<R>(f: impl FnOnce() -> R) -> R {
    QUIET.with(|q| *q.borrow_mut() += 1);
    let r = f();
    QUIET.with(|q| *q.borrow_mut() -= 1);
    r
}

pub fn take_last_panic() -> Option<String> {
    LAST_PANIC.with(|p| p.borrow_mut().take())
}

/// Finish the job that is current on the engine thread (if any) and report it to the driver.
fn finish_current(abort: Option<Abort>) {
    let cur = ENGINE_SIDE.with(|e| e.borrow_mut().as_mut().and_then(|e| e.cur.take()));
    if let Some(cur) = cur {
        let ctx = simctx::install(Ctx::idle());
        let abort = match abort {
            Some(a) => Some(a),
            None if cur.decider.rec.step_limited => Some(Abort::StepLimit(format!("more than {} scheduler steps", cur.decider.max_steps))),
            None => None,
        };
        let Current { body, decider, completed } = cur;
        // release the job's closure (and whatever it shares with the driver, e.g. the robot)
        // BEFORE the driver is told that the execution is over
        drop(body);
        let cur_rec = decider.rec;
        let done = Done { abort, completed, rec: cur_rec, ctx };
        ENGINE_SIDE.with(|e| {
            if let Some(e) = e.borrow().as_ref() {
                let _ = e.done.send(done);
            }
        });
    }
}

struct EngineScheduler;

impl Scheduler for EngineScheduler {
    fn new_execution(&mut self) -> Option<Schedule> {
        finish_current(None);
        let job = ENGINE_SIDE.with(|e| e.borrow().as_ref().and_then(|e| e.jobs.recv().ok()))?;
        let cfg = &job.cfg;
        let mut ctx = Ctx::idle();
        ctx.pool = cfg.pool.clamp(1, 64);
        ctx.take = cfg.take.to_ctx();
        ctx.inner_full = cfg.inner_full;
        ctx.steal = cfg.steal;
        ctx.aux = Rng::new(cfg.aux_seed);
        ctx.spawn_budget = cfg.spawn_budget;
        ctx.clock_tick_ns = cfg.clock.tick_ns;
        ctx.clock_jumps = cfg.clock.jumps.clone();
        ctx.rng = match &cfg.rng {
            RngSpec::Stream { seed, adversarial, abs, period } => {
                ctx.abs = abs.clone();
                ctx.abs_period = *period;
                RngPlan::Stream { rng: Rng::new(*seed), adversarial: *adversarial }
            }
            RngSpec::List(items) => RngPlan::List { items: items.iter().map(|o| o.to_ctx()).collect(), pos: 0 },
        };
        let _ = simctx::install(ctx);
        let _ = take_last_panic();
        let cur = Current { body: job.body.clone(), decider: Decider::new(cfg.sched.clone(), cfg.max_steps), completed: false };
        ENGINE_SIDE.with(|e| e.borrow_mut().as_mut().unwrap().cur = Some(cur));
        Some(Schedule::new(0))
    }

    fn next_task(&mut self, runnable: &[&Task], current: Option<TaskId>, _is_yielding: bool) -> Option<TaskId> {
        ENGINE_SIDE.with(|e| {
            let mut e = e.borrow_mut();
            let cur = e.as_mut().unwrap().cur.as_mut().expect("scheduling decision without a current job");
            cur.decider.next(runnable, current)
        })
    }

    fn next_u64(&mut self) -> u64 {
        ENGINE_SIDE.with(|e| {
            let mut e = e.borrow_mut();
            e.as_mut().unwrap().cur.as_mut().map(|c| c.decider.rng.next_u64()).unwrap_or(0)
        })
    }
}

fn engine_main(jobs: Receiver<Job>, done: Sender<Done>) {
    QUIET.with(|q| *q.borrow_mut() += 1);
    ENGINE_SIDE.with(|e| *e.borrow_mut() = Some(EngineSide { jobs, done, cur: None }));
    loop {
        let mut config = shuttle::Config::new();
        config.stack_size = 1 << 19;
        config.failure_persistence = shuttle::FailurePersistence::None;
        config.max_steps = shuttle::MaxSteps::None;
        config.silence_warnings = true;
        let runner = shuttle::Runner::new(EngineScheduler, config);
        let res = catch_unwind(AssertUnwindSafe(move || {
            runner.run(|| {
                let body = ENGINE_SIDE.with(|e| e.borrow().as_ref().unwrap().cur.as_ref().unwrap().body.clone());
                simctx::with(|c| c.active = true);
                body();
                simctx::with(|c| c.active = false);
                ENGINE_SIDE.with(|e| {
                    if let Some(c) = e.borrow_mut().as_mut().unwrap().cur.as_mut() {
                        c.completed = true;
                    }
                });
            });
        }));
        match res {
            Ok(()) => break, // job channel closed
            Err(payload) => {
                let wrapper = if let Some(s) = payload.downcast_ref::<&str>() {
                    s.to_string()
                } else if let Some(s) = payload.downcast_ref::<String>() {
                    s.clone()
                } else {
                    String::new()
                };
                let msg = take_last_panic().unwrap_or_else(|| wrapper.clone());
                let low = format!("{msg} {wrapper}").to_lowercase();
                let abort = if low.contains("deadlock") {
                    Abort::Deadlock(msg)
                } else {
                    Abort::Panic(msg)
                };
                simctx::with(|c| c.active = false);
                finish_current(Some(abort));
            }
        }
    }
}

fn with_engine<R>(f: impl FnOnce(&EngineHandle) -> R) -> R {
    ENGINE.with(|e| {
        let mut e = e.borrow_mut();
        if e.is_none() {
            let (jtx, jrx) = channel::<Job>();
            let (dtx, drx) = channel::<Done>();
            std::thread::Builder::new()
                .name("opwsim-engine".into())
                .stack_size(8 << 20)
                .spawn(move || engine_main(jrx, dtx))
                .expect("cannot start engine thread");
            *e = Some(EngineHandle { jobs: jtx, done: drx });
        }
        f(e.as_ref().unwrap())
    })
}

/// Run `body` as one simulated execution under `cfg`.
pub fn simulate<R, F>(cfg: &SimCfg, body: F) -> SimOut<R>
where
    R: Send + 'static,
    F: Fn() -> R + Send + Sync + 'static,
{
    let slot: Arc<Mutex<Option<R>>> = Arc::new(Mutex::new(None));
    let slot2 = slot.clone();
    let job = Job {
        cfg: cfg.clone(),
        body: Arc::new(move || {
            let r = body();
            *slot2.lock().unwrap() = Some(r);
        }),
    };
    let done = with_engine(|e| {
        e.jobs.send(job).expect("engine thread is gone");
        e.done.recv().expect("engine thread died")
    });
    let result = match (done.abort, slot.lock().unwrap().take()) {
        (Some(a), _) => Err(a),
        (None, Some(r)) if done.completed => Ok(r),
        (None, _) => Err(Abort::Panic("execution ended without a result".into())),
    };
    let (rec, ctx) = (done.rec, done.ctx);
    let counters = Counters {
        steps: rec.choices.len() as u64,
        branching: rec.branching,
        max_runnable: rec.max_runnable,
        sched_sig: rec.sig,
        n_rng: ctx.n_rng,
        n_rng_adversarial: ctx.n_rng_adversarial,
        n_par_calls: ctx.n_par_calls,
        n_par_items: ctx.n_par_items,
        n_par_multiworker: ctx.n_par_multiworker,
        n_find_any_races: ctx.n_find_any_races,
        n_find_any_multi: ctx.n_find_any_multi,
        n_skipped_after_found: ctx.n_skipped_after_found,
        max_workers: ctx.max_workers,
        n_nested: ctx.n_nested,
        replay_diverged: rec.diverged,
        n_clock_reads: ctx.n_clock_reads,
        n_clock_jumps_fired: ctx.n_clock_jumps_fired,
        clock_ns: ctx.clock_ns,
        n_steals_attempted: ctx.n_steals_attempted,
        n_steals_ran: ctx.n_steals_ran,
    };
    SimOut {
        result,
        schedule: rec.choices,
        rng_record: ctx.rng_record.iter().map(|o| Out::from_ctx(*o)).collect(),
        log: ctx.log,
        counters,
    }
}
