//! C13 — a returned RRT path joins start to goal through collision-free configurations, for every
//! outcome of the internal random sampling, and a raised cancellation flag makes the planner
//! return an error instead of a path.
//!
//! Seams: rand (every sample is dictated), the robot model (`Probe`: each collision check and each
//! sample is a numbered event where the flag may be raised), the flag itself (shuttle atomic via
//! hook H1, so a concurrent canceller can land between any two accesses), rayon (collision checks).

use crate::cell::*;
use crate::gen::{self, CellKnobs, LimitKind};
use crate::minimise;
use crate::oracle::{self, Tri};
use crate::probe::{self, Cancel, Kind, Trace};
use crate::report::{self, CheckMeta, Tally, Violation};
use crate::sim::{self, Abort, RngSpec, SchedSpec, SimCfg, SimOut};
use rs_opw_kinematics::kinematics_with_shape::KinematicsWithShape;
use rs_opw_kinematics::rrt::RRTPlanner;
use serde::{Deserialize, Serialize};
use serde_json::{json, Value};
use shuttle::sync::atomic::AtomicBool;
use simctx::Rng;
use std::collections::BTreeSet;
use std::sync::Arc;

#[derive(Clone, Debug, Serialize, Deserialize)]
pub struct Case {
    pub cell: CellSpec,
    pub start: [f64; 6],
    pub goal: [f64; 6],
    pub step: f64,
    pub max_try: usize,
    pub cancel: Cancel,
    pub cfg: SimCfg,
    /// history: the observed plan is the SECOND call on the same planner and robot; the first one
    /// (goal -> start, never cancelled... it shares the flag) only leaves behind whatever state the
    /// implementation keeps
    #[serde(default)]
    pub warm_up: bool,
    /// the flag is shared: after the observed call, a second planning request is made with the
    /// SAME flag object (nobody lowered it); it must obey the flag as well
    #[serde(default)]
    pub second_request: bool,
}

#[derive(Clone, Debug)]
pub struct Obs {
    pub result: Result<Vec<[f64; 6]>, String>,
    pub trace: Trace,
    /// result of the second request sharing the flag (if made) and whether the flag was up then
    pub second: Option<(bool, bool)>,
}

#[derive(Clone, Debug)]
pub struct Fail {
    pub clause: String,
    pub signature: String,
    pub detail: String,
}

pub fn execute(robot: &Arc<KinematicsWithShape>, case: &Case, keep_events: bool) -> SimOut<Obs> {
    report::progress_case(|| json!({"check": "C13", "case": case}));
    let robot = robot.clone();
    let (start, goal, step, max_try, cancel) = (case.start, case.goal, case.step, case.max_try, case.cancel);
    let warm_up = case.warm_up;
    let second_request = case.second_request;
    sim::simulate(&case.cfg, move || {
        let stop = Arc::new(AtomicBool::new(false));
        probe::begin(Some(stop.clone()), cancel, keep_events);
        if cancel == Cancel::Pre {
            probe::raise_now();
        }
        let canceller = match cancel {
            Cancel::Async(n) => Some(shuttle::thread::spawn(move || {
                for _ in 0..n {
                    shuttle::thread::yield_now();
                }
                probe::raise_now();
            })),
            _ => None,
        };
        let planner = RRTPlanner { step_size_joint_space: step, max_try, debug: false };
        if warm_up {
            // not observed: a previous planning request with its own flag
            let other = AtomicBool::new(false);
            probe::pause(true);
            let _ = planner.plan_rrt(&goal, &start, robot.as_ref(), &other);
            probe::pause(false);
        }
        let result = planner.plan_rrt(&start, &goal, robot.as_ref(), &stop);
        if let Some(h) = canceller {
            h.join().unwrap();
        }
        let trace = probe::end();
        let second = if second_request {
            let up = stop.load(shuttle::sync::atomic::Ordering::SeqCst);
            let r2 = planner.plan_rrt(&goal, &start, robot.as_ref(), &stop);
            Some((r2.is_ok(), up || trace.raised_at.is_some()))
        } else {
            None
        };
        Obs { result, trace, second }
    })
}

fn dist(a: &[f64; 6], b: &[f64; 6]) -> f64 {
    a.iter().zip(b).map(|(x, y)| (x - y) * (x - y)).sum::<f64>().sqrt()
}

fn same(a: &[f64; 6], b: &[f64; 6]) -> bool {
    a.iter().zip(b).all(|(x, y)| x.to_bits() == y.to_bits())
}

pub fn judge_obs(case: &Case, robot: &Arc<KinematicsWithShape>, oc: &OracleCell, out: &SimOut<Obs>) -> Vec<Fail> {
    let mut fails = Vec::new();
    let obs = match &out.result {
        Err(abort) => {
            let (clause, msg) = match abort {
                Abort::Panic(m) => ("i:panic", m.clone()),
                Abort::Deadlock(m) => ("i:deadlock", m.clone()),
                Abort::StepLimit(m) => ("i:step-limit", m.clone()),
            };
            // the panic site is the structural part
            let site = msg.rsplit(" @ ").next().unwrap_or("").rsplit('/').next().unwrap_or("").to_string();
            fails.push(Fail { clause: clause.into(), signature: format!("C13/{clause}/{site}"), detail: msg });
            return fails;
        }
        Ok(o) => o,
    };
    let cancel_name = match case.cancel {
        Cancel::Never => "never",
        Cancel::Pre => "pre",
        Cancel::At(Kind::Sample, _) => "at-sample",
        Cancel::At(Kind::Collision, _) => "at-collision",
        Cancel::At(Kind::Ik, _) => "at-ik",
        Cancel::Async(_) => "async",
    };
    if let Some((ok2, flag_was_raised)) = obs.second {
        if ok2 && flag_was_raised && case.max_try > 0 {
            fails.push(Fail {
                clause: "e:shared-flag-ignored-by-next-request".into(),
                signature: "C13/cancel/second-request-ok".into(),
                detail: "the cancellation flag was raised (and never lowered by the caller), yet a second planning request sharing the same flag returned a path".into(),
            });
        }
    }
    match &obs.result {
        Err(_) => {}
        Ok(path) => {
            if path.is_empty() {
                fails.push(Fail { clause: "a:empty-path".into(), signature: "C13/empty-path".into(), detail: "Ok(path) with no nodes".into() });
                return fails;
            }
            if !same(&path[0], &case.start) {
                fails.push(Fail {
                    clause: "a:wrong-start".into(),
                    signature: "C13/wrong-start".into(),
                    detail: format!("path[0] = {:?} is not the start vector {:?} ({} nodes; last = {:?})", path[0], case.start, path.len(), path[path.len() - 1]),
                });
            }
            if !same(&path[path.len() - 1], &case.goal) {
                fails.push(Fail {
                    clause: "a:wrong-goal".into(),
                    signature: "C13/wrong-goal".into(),
                    detail: format!("path[last] = {:?} is not the goal vector {:?} ({} nodes; first = {:?})", path[path.len() - 1], case.goal, path.len(), path[0]),
                });
            }
            // "reported collision-free by the same robot": ask it, inside a (sequential) simulated
            // execution so that any synchronisation primitive it touches has a runtime
            let reported: Vec<bool> = {
                let r2 = robot.clone();
                let nodes: Vec<[f64; 6]> = path.iter().filter(|n| n.iter().all(|x| x.is_finite())).copied().collect();
                let out = sim::simulate(&SimCfg::sequential(), move || nodes.iter().map(|n| r2.collides(n)).collect::<Vec<bool>>());
                out.result.unwrap_or_default()
            };
            let mut rep_idx = 0;
            for (i, n) in path.iter().enumerate() {
                if n.iter().any(|x| !x.is_finite()) {
                    fails.push(Fail { clause: "a:not-finite".into(), signature: "C13/not-finite".into(), detail: format!("node #{i} = {n:?}") });
                    continue;
                }
                let b = oracle::brute_q(oc, n, &case.cell.safety);
                let this_reported = rep_idx;
                rep_idx += 1;
                let _ = this_reported;
                if case.cell.safety.mode != Mode::NoCheck && b.any_definite() {
                    fails.push(Fail {
                        clause: "b:node-collides".into(),
                        signature: "C13/node-collides".into(),
                        detail: format!("node #{i} of {} collides on pairs {:?}: {n:?}", path.len(), b.definite()),
                    });
                } else if reported.get(this_reported).copied().unwrap_or(false) && !b.any_dont_care() {
                    fails.push(Fail {
                        clause: "b:node-reported-colliding".into(),
                        signature: "C13/node-reported-colliding".into(),
                        detail: format!("node #{i} is reported colliding by the same robot: {n:?}"),
                    });
                }
                if let Some((f, t)) = &case.cell.limits {
                    let nonwrapping = (0..6).all(|j| f[j] < t[j]);
                    if nonwrapping && oracle::within_limits(n, f, t, 1e-9) == Tri::No {
                        fails.push(Fail {
                            clause: "d:node-outside-limits".into(),
                            signature: "C13/node-outside-limits".into(),
                            detail: format!("node #{i} = {n:?} is outside the (non-wrapping) limits {f:?}..{t:?}"),
                        });
                    }
                }
                if i > 0 {
                    let d = dist(&path[i - 1], n);
                    if d > 3.0 * case.step + 1e-9 {
                        fails.push(Fail {
                            clause: "c:step-too-long".into(),
                            signature: "C13/step-too-long".into(),
                            detail: format!("nodes #{} and #{i} are {d:.6} rad apart, more than three steps of {:.6}", i - 1, case.step),
                        });
                    }
                }
            }
            // cancellation
            match (case.cancel, obs.trace.raised_at) {
                (Cancel::Pre, _) => fails.push(Fail {
                    clause: "e:cancelled-before-start-but-ok".into(),
                    signature: "C13/cancel/pre-ok".into(),
                    detail: format!("the flag was raised before plan_rrt was called, yet it returned a path of {} nodes", path.len()),
                }),
                (_, Some(at)) => {
                    let later_samples = obs.trace.events.iter().filter(|(s, k)| *k == Kind::Sample && *s > at).count();
                    let allowed = if matches!(case.cancel, Cancel::Async(_)) { 1 } else { 0 };
                    if later_samples > allowed {
                        fails.push(Fail {
                            clause: "f:planning-continued-after-cancel".into(),
                            signature: format!("C13/cancel/{cancel_name}-continued"),
                            detail: format!(
                                "the flag was raised at seam event {at}; the planner drew {later_samples} further samples and returned a path ({} samples, {} collision checks in total)",
                                obs.trace.samples, obs.trace.collisions
                            ),
                        });
                    }
                }
                _ => {}
            }
        }
    }
    fails
}

/// Interior nodes of a returned path that no collision check of the run was asked about.
/// NOT a verdict (the property is about outcomes, not about how they are obtained): it only
/// tells the fault injector where an obstacle would matter (see `guided_cases`).
pub fn unchecked_nodes(obs: &Obs) -> Vec<[f64; 6]> {
    let Ok(path) = &obs.result else { return vec![] };
    if path.len() < 3 {
        return vec![];
    }
    let checked: std::collections::HashSet<u64> = obs
        .trace
        .events
        .iter()
        .enumerate()
        .filter(|(_, (_, k))| *k == Kind::Collision)
        .map(|(i, _)| obs.trace.where_[i].1)
        .collect();
    path[1..path.len() - 1].iter().filter(|n| !checked.contains(&probe::joints_key(n))).copied().collect()
}

/// Guided fault placement: the same run (same random outcomes, same schedule) in a cell that has
/// one more obstacle, put exactly where the robot is at an interior path node nobody checked.
/// The derived case is an ordinary input of the property and is judged by the ordinary clauses.
pub fn guided_cases(case: &Case, out: &SimOut<Obs>, oc: &OracleCell) -> Vec<Case> {
    let Ok(obs) = &out.result else { return vec![] };
    let mut cases = Vec::new();
    for node in unchecked_nodes(obs).into_iter().take(2) {
        let poses = oracle::link_poses(oc, &node);
        // a small cube inside the last link (or the tool) at that posture
        let (mesh, pose) = match &oc.tool {
            Some(t) => (t, poses[5]),
            None => (&oc.links[4], poses[4]),
        };
        use parry3d::shape::Shape;
        let bb = mesh.compute_aabb(&pose);
        let c = bb.center();
        let mut cell = case.cell.clone();
        cell.env.push(EnvSpec {
            mesh: MeshSpec::cube([0.02, 0.02, 0.02], [0.0; 3], 1),
            pose: PoseSpec { t: [c.x as f64, c.y as f64, c.z as f64], rpy: [0.0; 3] },
        });
        let oc2 = OracleCell::new(&cell);
        let clear = |q: &[f64; 6]| {
            let b = oracle::brute_q(&oc2, q, &cell.safety);
            !b.any_definite() && !b.any_dont_care()
        };
        if cell.safety.mode == Mode::NoCheck || !clear(&case.start) || !clear(&case.goal) {
            continue;
        }
        let mut c2 = case.clone();
        c2.cell = cell;
        c2.cfg = minimise::with_replay(&case.cfg, out.schedule.clone(), Some(out.rng_record.clone()));
        cases.push(c2);
    }
    cases
}

/// Positional variant of a scenario: the same robot, start and goal with the bodies LISTED
/// differently — the environment in reverse order (per-pair entries renumbered with it), the tool
/// and / or the base body taken away — and a pool size that does not divide typical pair counts.
/// Which pair comes last in the planner's collision work, and how the work splits over the
/// workers, changes; whether a configuration collides does not (fewer bodies: start and goal stay
/// free). Anything that treats the head, the tail or a remainder of that list differently shows up
/// as a colliding node.
pub fn positional_variant(case: &Case, r: &mut Rng) -> Case {
    let mut c = case.clone();
    let n = c.cell.env.len();
    if r.chance(0.7) {
        c.cell.tool = None;
    }
    if r.chance(0.7) {
        c.cell.base = None;
    }
    let reverse = n >= 2 && r.chance(0.5);
    if reverse {
        c.cell.env.reverse();
    }
    let (has_tool, has_base) = (c.cell.tool.is_some(), c.cell.base.is_some());
    let remap = |k: u16| -> Option<u16> {
        let k = k as usize;
        if k >= ENV0 {
            Some(if reverse { (ENV0 + (n - 1 - (k - ENV0))) as u16 } else { k as u16 })
        } else if (k == J_TOOL && !has_tool) || (k == J_BASE && !has_base) {
            None
        } else {
            Some(k as u16)
        }
    };
    c.cell.safety.special = c.cell.safety.special.iter().filter_map(|&(a, b, d)| Some((remap(a)?, remap(b)?, d))).collect();
    c.cfg.pool = *r.pick(&[2usize, 3, 3, 5, 6, 7, 7, 9, 11, 13]);
    c.cancel = Cancel::Never;
    c
}

pub fn judge(case: &Case) -> Vec<Fail> {
    let robot = Arc::new(case.cell.build_probed_robot());
    let oc = OracleCell::new(&case.cell);
    let out = execute(&robot, case, true);
    judge_obs(case, &robot, &oc, &out)
}

pub fn replay_all(case: &Value) -> Vec<(String, String)> {
    match serde_json::from_value::<Case>(case.clone()) {
        Ok(c) => judge(&c).into_iter().map(|f| (f.clause, f.detail)).collect(),
        Err(e) => vec![("harness:bad-case".into(), e.to_string())],
    }
}

fn simplifications(case: &Case) -> Vec<Case> {
    let mut out = Vec::new();
    for k in 0..case.cell.env.len() {
        let mut c = case.clone();
        c.cell.env.remove(k);
        c.cell.safety.special.retain(|s| s.0 as usize != ENV0 + k && s.1 as usize != ENV0 + k);
        for s in c.cell.safety.special.iter_mut() {
            if s.0 as usize > ENV0 + k {
                s.0 -= 1;
            }
            if s.1 as usize > ENV0 + k {
                s.1 -= 1;
            }
        }
        out.push(c);
    }
    for i in 0..case.cell.safety.special.len() {
        let mut c = case.clone();
        c.cell.safety.special.remove(i);
        out.push(c);
    }
    if case.cell.tool.is_some() {
        let mut c = case.clone();
        c.cell.tool = None;
        c.cell.safety.special.retain(|s| s.0 as usize != J_TOOL && s.1 as usize != J_TOOL);
        out.push(c);
    }
    if case.cell.base.is_some() {
        let mut c = case.clone();
        c.cell.base = None;
        c.cell.safety.special.retain(|s| s.0 as usize != J_BASE && s.1 as usize != J_BASE);
        out.push(c);
    }
    if case.warm_up {
        let mut c = case.clone();
        c.warm_up = false;
        out.push(c);
    }
    if case.second_request {
        let mut c = case.clone();
        c.second_request = false;
        out.push(c);
    }
    if case.max_try > 1 {
        for m in [1, case.max_try / 2] {
            let mut c = case.clone();
            c.max_try = m;
            out.push(c);
        }
    }
    match case.cancel {
        Cancel::Never => {}
        Cancel::At(k, n) if n > 1 => {
            let mut c = case.clone();
            c.cancel = Cancel::At(k, 1);
            out.push(c);
            let mut c = case.clone();
            c.cancel = Cancel::At(k, n / 2);
            out.push(c);
        }
        Cancel::Async(n) if n > 0 => {
            let mut c = case.clone();
            c.cancel = Cancel::Async(n / 2);
            out.push(c);
        }
        _ => {}
    }
    for s in minimise::simpler_cfgs(&case.cfg) {
        let mut c = case.clone();
        c.cfg = s;
        out.push(c);
    }
    out
}

fn minimise_case(case: &Case, clause: &str, signature: &str) -> Case {
    let mut still = |c: &Case| judge(c).iter().any(|f| f.clause == clause && f.signature == signature);
    let mut cur = minimise::greedy(case.clone(), &simplifications, &mut still, 60);
    // explicit random outcomes and schedule
    let robot = Arc::new(cur.cell.build_probed_robot());
    let out = execute(&robot, &cur, false);
    let mut trial = cur.clone();
    trial.cfg = minimise::with_replay(&cur.cfg, out.schedule.clone(), Some(out.rng_record.clone()));
    if still(&trial) {
        let base = trial.clone();
        let rng = minimise::shrink_rng(
            &out.rng_record,
            &mut |l| {
                let mut t = base.clone();
                t.cfg.rng = RngSpec::List(l.to_vec());
                still(&t)
            },
            40,
        );
        trial.cfg.rng = RngSpec::List(rng);
        let base = trial.clone();
        let sched = minimise::shrink_schedule(
            &out.schedule,
            &mut |l| {
                let mut t = base.clone();
                t.cfg.sched = SchedSpec::Replay(l.to_vec());
                still(&t)
            },
            30,
        );
        trial.cfg.sched = SchedSpec::Replay(sched);
        cur = trial;
    }
    cur
}

pub struct Tier {
    pub shards: usize,
    pub per_shard: usize,
    /// base runs per shard for which EVERY cancellation position is enumerated
    pub enumerate_bases: usize,
    pub enumerate_cap: u64,
    pub max_try_hi: usize,
}

pub fn tier(name: &str) -> Tier {
    match name {
        "thorough" => Tier { shards: 256, per_shard: 120, enumerate_bases: 2, enumerate_cap: 400, max_try_hi: 500 },
        "smoke" => Tier { shards: 4, per_shard: 8, enumerate_bases: 1, enumerate_cap: 30, max_try_hi: 100 },
        _ => Tier { shards: 32, per_shard: 60, enumerate_bases: 2, enumerate_cap: 80, max_try_hi: 300 },
    }
}

/// A scenario without the cancel decision.
pub fn gen_case(seed: u64, shard: u64, run: u64, t: &Tier) -> Option<Case> {
    let mut w = Rng::derive(seed, shard, run, "c13.workload");
    let mut knobs = Rng::derive(seed, shard, run, "c13.knobs");
    let wrapping = knobs.chance(0.15);
    let k = CellKnobs {
        tool_p: 0.6,
        base_p: 0.6,
        max_env: if knobs.chance(0.05) { 8 } else { 3 },
        max_sub: 2,
        limits: if wrapping { LimitKind::Wrapping } else if knobs.chance(0.5) { LimitKind::Wide } else { LimitKind::Narrow },
        ctor: Ctor::Direct,
        touch_only: false,
        sparse: true,
    };
    let mut cell = gen::gen_robot(&mut w, &k);
    if knobs.chance(0.4) {
        // reversed joint directions (the limits are stated for the user-facing joint values)
        for j in 0..6 {
            cell.signs[j] = if knobs.chance(0.5) { 1 } else { -1 };
        }
    }
    cell.safety = gen::gen_safety(&mut w, cell.tool.is_some(), cell.base.is_some(), k.max_env, false, true);
    if cell.safety.mode == Mode::NoCheck && w.chance(0.7) {
        cell.safety.mode = Mode::First;
    }
    // the start posture first; obstacles are then placed around a NEIGHBOUR of it (a few planner
    // steps away along `dir`), so that the start is usually free but right next to an obstacle,
    // and the goal often lies beyond it: trees get trapped and need several rounds
    let (lf, lt) = cell.limits.unwrap();
    let clampq = |q: &mut [f64; 6]| {
        for j in 0..6 {
            if lf[j] < lt[j] {
                q[j] = q[j].clamp(lf[j] + 1e-6, lt[j] - 1e-6);
            }
        }
    };
    let start0 = gen::gen_posture(&mut w, &cell.limits);
    let mut dir = [0.0f64; 6];
    for _ in 0..w.range_usize(1, 3) {
        dir[w.below(5)] = if w.chance(0.5) { 1.0 } else { -1.0 } * w.range_f64(0.5, 1.0);
    }
    let reach = w.range_f64(0.12, 0.6);
    let mut neighbour = start0;
    for j in 0..6 {
        neighbour[j] += dir[j] * reach;
    }
    clampq(&mut neighbour);
    let dense = knobs.chance(0.6);
    let mut kk = k;
    kk.sparse = !dense;
    gen::add_environment(&mut w, &mut cell, &neighbour, &kk);
    let n_env = cell.env.len();
    cell.safety.special.retain(|s| (s.0 as usize) < ENV0 + n_env && (s.1 as usize) < ENV0 + n_env);
    let oc = OracleCell::new(&cell);
    let free = |q: &[f64; 6]| -> bool {
        if let Some((f, t)) = &cell.limits {
            if oracle::within_limits(q, f, t, 1e-6) != Tri::Yes {
                return false;
            }
        }
        let b = oracle::brute_q(&oc, q, &cell.safety);
        !b.any_definite() && !b.any_dont_care()
    };
    // start: the drawn posture, or a nearby one if it happens to collide
    let mut start = None;
    for attempt in 0..30 {
        let mut q = start0;
        if attempt > 0 {
            for j in 0..6 {
                q[j] -= dir[j] * reach * 0.15 * attempt as f64 + w.range_f64(-0.05, 0.05);
            }
            clampq(&mut q);
        }
        if free(&q) {
            start = Some(q);
            break;
        }
    }
    let start = start?;
    // goal: beyond the obstacle along `dir`, or anywhere
    let mut goal = None;
    for attempt in 0..40 {
        let mut q = if attempt < 25 && w.chance(0.7) {
            let mut q = start;
            let far = reach * w.range_f64(1.5, 4.0);
            for j in 0..6 {
                q[j] += dir[j] * far + w.range_f64(-0.15, 0.15);
            }
            q
        } else {
            gen::gen_posture(&mut w, &cell.limits)
        };
        clampq(&mut q);
        if free(&q) {
            goal = Some(q);
            break;
        }
    }
    let mut goal = goal?;
    let fine = Rng::derive(seed, shard, run, "c13.fine").below(100);
    let step = match if fine < 4 { 8 } else if w.chance(0.05) { 9 } else { w.below(4) } {
        // ultra-fine steps (thousandths of a degree): anything that thinks in absolute angles
        // (a rounding grid, a "negligible move" threshold) is coarser than the planner's step
        8 => *Rng::derive(seed, shard, run, "c13.fine-step").pick(&[2e-5, 5e-5, 1e-4, 1.7e-4, 3e-4]),
        // very fine steps (a tenth of a degree and less)
        9 => w.range_f64(0.0008, 0.004),
        0 => w.range_f64(0.5, 2.0f64).to_radians(),
        1 | 2 => w.range_f64(2.0, 8.0f64).to_radians(),
        _ => w.range_f64(8.0, 20.0f64).to_radians(),
    };
    // sometimes the goal is only a fraction of a planner step (or a step and a bit) away from the
    // start: this is how the Cartesian planner uses RRT to close small gaps
    if w.chance(0.12) {
        for _ in 0..10 {
            let mut q = start;
            let mut d: [f64; 6] = std::array::from_fn(|_| w.range_f64(-1.0, 1.0));
            let n = d.iter().map(|x| x * x).sum::<f64>().sqrt().max(1e-9);
            let len = step * w.range_f64(0.1, 1.6);
            for j in 0..6 {
                d[j] *= len / n;
                q[j] += d[j];
            }
            clampq(&mut q);
            if free(&q) {
                goal = q;
                break;
            }
        }
    }
    if w.chance(0.03) {
        goal = start;
    }
    // ... or the start up to rounding: what an inverse-kinematics round trip of the start gives
    {
        let mut nb = Rng::derive(seed, shard, run, "c13.nearly-equal");
        if nb.chance(0.03) {
            let mut q = start;
            for j in 0..6 {
                if nb.chance(0.5) {
                    q[j] = match nb.below(3) {
                        0 => q[j] + 1e-9,
                        1 => f64::from_bits(q[j].to_bits().wrapping_add(nb.range_usize(1, 4) as u64)),
                        _ => q[j] - 4e-12,
                    };
                }
            }
            if free(&q) {
                goal = q;
            }
        }
    }
    if step < 0.005 {
        // keep the move short (tens of steps), otherwise a plan needs thousands of nodes
        for _ in 0..10 {
            let mut q = start;
            for j in 0..6 {
                q[j] += w.range_f64(-1.0, 1.0) * step * w.range_f64(2.0, 12.0);
            }
            clampq(&mut q);
            if free(&q) {
                goal = q;
                break;
            }
        }
    }
    // postures AT a joint limit (a fraction of a planner step inside it) on one to three joints:
    // the first extension towards any sample that is not where the sampler's contract says it
    // is steps out of the limits, and the other tree usually connects straight to that node
    let mut start = start;
    // (not with fine steps: the move has just been kept short there, a long one needs tens of
    // thousands of nodes and a chain that long overflows the kd-tree's recursion on a small stack)
    if !wrapping && step >= 0.005 && knobs.chance(0.3) {
        let mut b = Rng::derive(seed, shard, run, "c13.boundary");
        for _ in 0..10 {
            let (mut qs, mut qg) = (start, goal);
            // preferred: the limit OPPOSITE to the side on which the range reaches past half a
            // turn (an angle that some code "canonicalises" by a full turn lands beyond it)
            let mut preferred: Vec<(usize, bool)> = Vec::new();
            for j in 0..6 {
                if lt[j] > std::f64::consts::PI {
                    preferred.push((j, true));
                }
                if lf[j] < -std::f64::consts::PI {
                    preferred.push((j, false));
                }
            }
            for _ in 0..b.range_usize(1, 3) {
                let (j, low_side) = if !preferred.is_empty() && b.chance(0.7) { *b.pick(&preferred) } else { (b.below(6), b.chance(0.5)) };
                let inside = step * b.range_f64(0.02, 0.5);
                let at = if low_side { lf[j] + inside } else { lt[j] - inside };
                if b.chance(0.7) {
                    qs[j] = at;
                } else {
                    qg[j] = at;
                }
            }
            if free(&qs) && free(&qg) {
                start = qs;
                goal = qg;
                break;
            }
        }
    }
    let max_try = match w.below(6) {
        0 => w.below(3),
        1 | 2 => w.range_usize(3, 40),
        _ => w.range_usize(40, t.max_try_hi),
    };
    // random-outcome plan: uniform, with a per-run rate of adversarial samples
    let (f, _t) = cell.limits.unwrap();
    let two_pi = 2.0 * std::f64::consts::PI;
    let target = |v: &[f64; 6]| -> Vec<f64> { (0..6).map(|j| (v[j] - f[j]).rem_euclid(two_pi)).collect() };
    let mut abs = vec![target(&goal), target(&start), vec![0.0; 6]];
    // samples within one planner step of the start / goal node, towards the obstacle
    let norm = dir.iter().map(|x| x * x).sum::<f64>().sqrt().max(1e-9);
    for (base, sign) in [(&start, 1.0), (&start, 1.0), (&goal, -1.0), (&start, -1.0)] {
        let frac = w.range_f64(0.3, 0.98);
        let mut q = *base;
        for j in 0..6 {
            q[j] += sign * dir[j] / norm * step * frac;
        }
        abs.push(target(&q));
    }
    let adversarial = *knobs.pick(&[0.0, 0.0, 0.05, 0.3, 0.9]);
    let sched_seed = simctx::mix(&[seed, shard, run, simctx::name_hash("c13.sched")]);
    let rng_seed = simctx::mix(&[seed, shard, run, simctx::name_hash("c13.rng")]);
    let mut cfg = SimCfg::swarm(&mut knobs, sched_seed, rng_seed, 3_000_000);
    cfg.rng = RngSpec::Stream { seed: rng_seed, adversarial, abs, period: 6 };
    cfg.inner_full = knobs.chance(0.3);
    let warm_up = knobs.chance(0.2);
    let second_request = knobs.chance(0.3);
    Some(Case { cell, start, goal, step, max_try, cancel: Cancel::Never, cfg, warm_up, second_request })
}

fn record(case: &Case, out: &SimOut<Obs>, tally: &mut Tally, scen_hash: u64) {
    tally.evaluations += 1;
    let c = &out.counters;
    tally.bump("sched_steps", c.steps);
    tally.max("max_sched_steps_in_one_execution", c.steps);
    tally.bump("sched_branching_points", c.branching);
    tally.bump("random_draws", c.n_rng);
    tally.bump("clock_reads", c.n_clock_reads);
    tally.bump("fault_clock_leap_fired", c.n_clock_jumps_fired);
    tally.bump("simulated_time_us", c.clock_ns.saturating_sub(1_000_000_000) / 1000);
    tally.bump("random_draws_adversarial", c.n_rng_adversarial);
    tally.bump("par_calls", c.n_par_calls);
    tally.bump("work_steals_while_blocked_ran", c.n_steals_ran);
    tally.bump(&format!("pool_size_{:02}", case.cfg.pool), 1);
    if case.warm_up {
        tally.bump("history_plans_observed_after_a_previous_plan", 1);
    }
    let cancel = match case.cancel {
        Cancel::Never => "fault_cancel_never",
        Cancel::Pre => "fault_cancel_before_call",
        Cancel::At(Kind::Sample, _) => "fault_cancel_at_kth_sample",
        Cancel::At(_, _) => "fault_cancel_at_kth_collision_check",
        Cancel::Async(_) => "fault_cancel_from_concurrent_task",
    };
    tally.bump(cancel, 1);
    if let Ok(o) = &out.result {
        tally.bump("seam_collision_checks", o.trace.collisions);
        tally.bump("seam_samples", o.trace.samples);
        if o.trace.samples >= 2 {
            tally.bump("plans_needing_two_or_more_rounds", 1);
        }
        if o.trace.raised_at.is_some() {
            tally.bump("cancel_flag_actually_raised_during_run", 1);
        }
        match &o.result {
            Ok(p) => {
                tally.bump("plans_ok", 1);
                tally.bump("path_nodes", p.len() as u64);
                if o.trace.raised_at.is_some() {
                    tally.bump("plans_ok_although_flag_raised_in_flight", 1);
                }
            }
            Err(e) => {
                tally.bump("plans_err", 1);
                if e.contains("ancel") {
                    tally.bump("plans_err_cancelled", 1);
                }
            }
        }
    }
    // distinct: scenario + random outcomes + schedule + cancel point
    let mut words = vec![scen_hash, c.sched_sig, out.log.a];
    words.push(match case.cancel {
        Cancel::Never => 0,
        Cancel::Pre => 1,
        Cancel::At(k, n) => 2 + ((k as u64) << 32) + n,
        Cancel::Async(n) => 3 + ((n as u64) << 8),
    });
    if c.n_rng > 0 || c.branching > 0 {
        tally.distinct.insert(((simctx::mix(&words) as u128) << 64) | out.log.b as u128);
    }
}

pub fn run(tier_name: &str, seed: u64) -> i32 {
    let t = tier(tier_name);
    let started = std::time::Instant::now();
    let tally = report::run_shards(t.shards, |shard| {
        let mut tally = Tally::default();
        let mut enumerated = 0;
        for run in 0..t.per_shard {
            report::progress(shard, run);
            let Some(base) = gen_case(seed, shard as u64, run as u64, &t) else {
                tally.bump("scenarios_without_free_start_goal", 1);
                continue;
            };
            let mut w = Rng::derive(seed, shard as u64, run as u64, "c13.fault");
            let robot = Arc::new(base.cell.build_probed_robot());
            let oc = OracleCell::new(&base.cell);
            let scen_hash = simctx::name_hash(&serde_json::to_string(&(&base.cell, &base.start, &base.goal, base.step, base.max_try)).unwrap());
            let mut cases: Vec<Case> = Vec::new();
            // fault-free run first (also tells how many seam events there are)
            let out0 = execute(&robot, &base, true);
            let (ns, nc) = out0.result.as_ref().map(|o| (o.trace.samples, o.trace.collisions)).unwrap_or((0, 0));
            let mut all: Vec<(Case, SimOut<Obs>)> = vec![(base.clone(), out0)];
            // one drawn cancellation per scenario
            let cancel = match if ns >= 2 { w.below(8) } else { w.below(6) } {
                0 => Cancel::Pre,
                1 | 2 | 6 | 7 if ns > 0 => Cancel::At(Kind::Sample, 1 + w.below(ns as usize) as u64),
                3 | 4 if nc > 0 => Cancel::At(Kind::Collision, 1 + w.below(nc as usize) as u64),
                _ => Cancel::Async(w.below(((ns * 8 + nc * 2) as usize).max(4)) as u32),
            };
            let mut c = base.clone();
            c.cancel = cancel;
            cases.push(c);
            // exhaustive cancellation points for a few base runs
            if enumerated < t.enumerate_bases && ns >= 2 && ns + nc <= t.enumerate_cap {
                enumerated += 1;
                tally.bump("base_runs_with_every_cancel_point_enumerated", 1);
                for k in 1..=ns {
                    let mut c = base.clone();
                    c.cancel = Cancel::At(Kind::Sample, k);
                    cases.push(c);
                }
                for k in 1..=nc {
                    let mut c = base.clone();
                    c.cancel = Cancel::At(Kind::Collision, k);
                    cases.push(c);
                }
            }
            for c in cases {
                let out = execute(&robot, &c, true);
                all.push((c, out));
            }
            // guided fault placement on nodes that were never collision-checked (none on a planner
            // that checks every node it adds)
            let mut guided: Vec<(Case, SimOut<Obs>, &str)> = Vec::new();
            for (c, out) in all.iter().take(2) {
                if let Ok(o) = &out.result {
                    let n = unchecked_nodes(o).len();
                    if n > 0 {
                        tally.bump("paths_with_nodes_no_collision_check_was_asked_about", 1);
                    }
                }
                for g in guided_cases(c, out, &oc) {
                    let grobot = Arc::new(g.cell.build_probed_robot());
                    let gout = execute(&grobot, &g, true);
                    tally.bump("fault_obstacle_placed_on_unchecked_path_node", 1);
                    guided.push((g, gout, "obstacle placed at a path node the planner never checked"));
                }
            }
            // positional variant of every third scenario (bodies listed differently, odd pool sizes)
            if run % 3 == 2 {
                let mut r = Rng::derive(seed, shard as u64, run as u64, "c13.positional");
                let v = positional_variant(&base, &mut r);
                let vrobot = Arc::new(v.cell.build_probed_robot());
                let vout = execute(&vrobot, &v, true);
                tally.bump("positional_variants (environment reversed / tool or base body removed / odd pool size)", 1);
                guided.push((v, vout, "positional variant: same robot, start and goal; bodies listed differently"));
            }
            // determinism (clause h): the fault-free run again, bit for bit
            if run % 8 == 0 {
                let again = execute(&robot, &base, true);
                if again.log != all[0].1.log {
                    // The simulator's own determinism is established by the self-test in `setup`;
                    // a difference here means the code under test behaved differently when asked
                    // the same thing twice (state kept between calls). Reported, not a verdict.
                    tally.bump("identical_runs_with_different_event_logs", 1);
                }
                tally.bump("determinism_reruns", 1);
            }
            let mut seen = BTreeSet::new();
            for (g, gout, why) in &guided {
                record(g, gout, &mut tally, scen_hash ^ 0x6D);
                let grobot = Arc::new(g.cell.build_probed_robot());
                let goc = OracleCell::new(&g.cell);
                for f in judge_obs(g, &grobot, &goc, gout) {
                    if !seen.insert((f.clause.clone(), f.signature.clone())) || !tally.first_few(&f.clause, &f.signature, 2) {
                        continue;
                    }
                    tally.bump("raw_failures", 1);
                    if judge(g).iter().any(|x| x.clause == f.clause && x.signature == f.signature) {
                        tally.violations.push(Violation {
                            property: "C13".into(),
                            clause: f.clause.clone(),
                            signature: f.signature.clone(),
                            detail: format!("{} [{}]", f.detail, why),
                            case: json!({"check": "C13", "case": g}),
                            origin: Some((shard, run)),
                        });
                    }
                }
            }
            for (c, out) in &all {
                record(c, out, &mut tally, scen_hash);
                if tally.samples.len() < 2 {
                    if let Ok(o) = &out.result {
                        tally.samples.push(json!({
                            "start": c.start, "goal": c.goal, "step_rad": c.step, "max_try": c.max_try,
                            "cancel": format!("{:?}", c.cancel), "pool": c.cfg.pool, "rng": match &c.cfg.rng { RngSpec::Stream { adversarial, .. } => json!({"adversarial_rate": adversarial}), _ => json!("list") },
                            "env_bodies": c.cell.env.len(),
                            "result": match &o.result { Ok(p) => format!("Ok({} nodes)", p.len()), Err(e) => format!("Err({e})") },
                            "seam_events": {"samples": o.trace.samples, "collision_checks": o.trace.collisions, "flag_raised_at": o.trace.raised_at},
                            "first_draws": out.rng_record.iter().take(6).map(|d| format!("{d:?}")).collect::<Vec<_>>(),
                            "log_hash": out.log.hex(),
                        }));
                    }
                }
                for f in judge_obs(c, &robot, &oc, out) {
                    if !seen.insert((f.clause.clone(), f.signature.clone())) || !tally.first_few(&f.clause, &f.signature, 2) {
                        continue;
                    }
                    tally.bump("raw_failures", 1);
                    let min = minimise_case(c, &f.clause, &f.signature);
                    let detail = judge(&min).into_iter().find(|g| g.clause == f.clause && g.signature == f.signature).map(|g| g.detail).unwrap_or(f.detail.clone());
                    tally.violations.push(Violation {
                        property: "C13".into(),
                        clause: f.clause.clone(),
                        signature: f.signature.clone(),
                        detail,
                        case: json!({"check": "C13", "case": min}),
                        origin: Some((shard, run)),
                    });
                }
            }
        }
        tally
    });
    let wall = started.elapsed().as_secs_f64();
    let meta = CheckMeta {
        property: "C13",
        tier: if tier_name == "thorough" { "thorough" } else { "quick" },
        seed,
        level: "exploration",
        rule: "one evaluation = one simulated execution of RRTPlanner::plan_rrt (real dual_rrt_connect and kd-tree) on a generated cell with collision-free start/goal, with every random sample dictated through the rand seam (uniform plus a per-run rate of adversarial samples: exactly the goal, exactly the start, the lower corner of the limits, repeats, range extremes) and one cancellation plan: never / before the call / inside the k-th sample / inside the k-th collision check / from a concurrent simulated task. For the enumerated base runs EVERY seam event is used once as the cancellation point. distinct_nontrivial counts distinct (scenario, random-outcome log, schedule signature, cancellation point) tuples with at least one random draw or branching scheduling decision.",
        assumptions: vec![
            "a flag raised while an iteration is in flight may let that iteration finish (the flag is polled once per iteration): an Ok result is a violation only if the planner drew further samples afterwards (more than one for the asynchronous canceller, whose store can fall between the poll and the sample)".into(),
            "limits are always set (plan_rrt requires them) with from != to; the limits clause is asserted for non-wrapping limits only, as the property says".into(),
            "parry3d queries and forward_with_joint_poses are trusted by the oracle; shuttle atomics are sequentially consistent".into(),
        ],
        components: json!({
            "real": ["/repo/src/path_plan/rrt.rs", "/repo/src/path_plan/rrt_to.rs", "/repo/src/constraints.rs (random_angles)", "/repo/src/collisions.rs", "kdtree", "parry3d"],
            "stub_contract_model": ["rand (sim-rand)", "rayon (sim-rayon)"],
            "simulator": ["shuttle tasks + opwsim SeededScheduler", "Probe (robot-model seam) for seam events and cancellation injection", "stop flag = shuttle AtomicBool through hook H1"],
        }),
        exhaustive: false,
    };
    report::finish(meta, tally, wall, &|v| replay_all(&v["case"]), &|shard, run| case_json(tier_name, seed, shard, run))
}


pub fn digest(seed: u64, i: u64) -> Vec<String> {
    let t = tier("quick");
    let Some(mut case) = gen_case(seed, 9000 + i % 5, i, &t) else { return vec![format!("C13 {i} - no-case")] };
    let robot = Arc::new(case.cell.build_probed_robot());
    let mut lines = Vec::new();
    for (j, cancel) in [Cancel::Never, Cancel::At(Kind::Collision, 3), Cancel::Async(7)].into_iter().enumerate() {
        case.cancel = cancel;
        let out = execute(&robot, &case, true);
        let res = out.result.as_ref().map(|o| format!("{:?} {:?} {:?}", o.result, o.trace.events, o.trace.raised_at));
        lines.push(format!("C13 {i} {j} {} {:016x} {}", out.log.hex(), simctx::name_hash(&format!("{res:?}")), out.schedule.len()));
    }
    lines
}

pub fn case_json(tier_name: &str, seed: u64, shard: usize, run: usize) -> Option<Value> {
    let t = tier(tier_name);
    gen_case(seed, shard as u64, run as u64, &t).map(|c| json!({"check": "C13", "case": c}))
}
