//! Explicit, serialisable description of a robotic cell (robot, meshes, environment, safety
//! table, limits) and its construction through the library's public API.
//!
//! A replay file stores a `CellSpec` as plain numbers, so a violation does not depend on any
//! generator state.

use nalgebra::{Isometry3, Translation3, UnitQuaternion};
use parry3d::math::Point;
use parry3d::shape::TriMesh;
use rs_opw_kinematics::collisions::{BaseBody, CheckMode, CollisionBody, RobotBody, SafetyDistances};
use rs_opw_kinematics::constraints::Constraints;
use rs_opw_kinematics::kinematic_traits::Kinematics;
use rs_opw_kinematics::kinematics_impl::OPWKinematics;
use rs_opw_kinematics::kinematics_with_shape::KinematicsWithShape;
use rs_opw_kinematics::parameters::opw_kinematics::Parameters;
use rs_opw_kinematics::tool::{Base, Tool};
use serde::{Deserialize, Serialize};
use std::collections::HashMap;
use std::sync::Arc;

pub const J_TOOL: usize = 100;
pub const J_BASE: usize = 101;
pub const ENV0: usize = 1000;
pub const NEVER: f32 = -1.0;

#[derive(Clone, Debug, Serialize, Deserialize, PartialEq)]
pub struct MeshSpec {
    /// half extents of the box
    pub half: [f32; 3],
    /// centre of the box in the body's own frame
    pub center: [f32; 3],
    /// every face is an n x n grid of quads (n >= 1): 6 (n+1)^2 vertices
    pub sub: u8,
    /// if set, the mesh is loaded from this STL file instead (thorough tier: bundled RX160)
    #[serde(default)]
    pub stl: Option<String>,
}

impl MeshSpec {
    pub fn cube(half: [f32; 3], center: [f32; 3], sub: u8) -> Self {
        MeshSpec { half, center, sub: sub.max(1), stl: None }
    }

    pub fn build(&self) -> TriMesh {
        if let Some(path) = &self.stl {
            return rs_read_trimesh::load_trimesh(path, 1.0).expect("cannot load STL mesh");
        }
        let n = self.sub.max(1) as usize;
        let mut v: Vec<Point<f32>> = Vec::with_capacity(6 * (n + 1) * (n + 1));
        let mut idx: Vec<[u32; 3]> = Vec::with_capacity(12 * n * n);
        let h = self.half;
        let c = self.center;
        // faces: fixed axis a with sign s, varying axes b and c
        for (a, s) in [(0usize, -1.0f32), (0, 1.0), (1, -1.0), (1, 1.0), (2, -1.0), (2, 1.0)] {
            let b = (a + 1) % 3;
            let d = (a + 2) % 3;
            let base = v.len() as u32;
            for i in 0..=n {
                for j in 0..=n {
                    let mut p = [0.0f32; 3];
                    p[a] = c[a] + s * h[a];
                    p[b] = c[b] - h[b] + 2.0 * h[b] * (i as f32) / (n as f32);
                    p[d] = c[d] - h[d] + 2.0 * h[d] * (j as f32) / (n as f32);
                    v.push(Point::new(p[0], p[1], p[2]));
                }
            }
            let w = (n + 1) as u32;
            for i in 0..n as u32 {
                for j in 0..n as u32 {
                    let p00 = base + i * w + j;
                    let p01 = p00 + 1;
                    let p10 = p00 + w;
                    let p11 = p10 + 1;
                    idx.push([p00, p10, p01]);
                    idx.push([p01, p10, p11]);
                }
            }
        }
        TriMesh::new(v, idx).expect("box mesh")
    }

    pub fn vertex_count(&self) -> usize {
        let n = self.sub.max(1) as usize;
        6 * (n + 1) * (n + 1)
    }
}

#[derive(Clone, Copy, Debug, Serialize, Deserialize, PartialEq)]
pub struct PoseSpec {
    pub t: [f64; 3],
    /// roll, pitch, yaw
    pub rpy: [f64; 3],
}

impl PoseSpec {
    pub fn identity() -> Self {
        PoseSpec { t: [0.0; 3], rpy: [0.0; 3] }
    }
    pub fn iso(&self) -> Isometry3<f64> {
        Isometry3::from_parts(
            Translation3::new(self.t[0], self.t[1], self.t[2]),
            UnitQuaternion::from_euler_angles(self.rpy[0], self.rpy[1], self.rpy[2]),
        )
    }
    pub fn iso32(&self) -> Isometry3<f32> {
        self.iso().cast::<f32>()
    }
}

#[derive(Clone, Debug, Serialize, Deserialize, PartialEq)]
pub struct EnvSpec {
    pub mesh: MeshSpec,
    pub pose: PoseSpec,
}

#[derive(Clone, Copy, Debug, Serialize, Deserialize, PartialEq, Eq)]
pub enum Mode {
    First,
    All,
    NoCheck,
}

#[derive(Clone, Debug, Serialize, Deserialize, PartialEq)]
pub struct SafetySpec {
    pub to_env: f32,
    pub to_robot: f32,
    /// (a, b, distance); at most one of (a,b) / (b,a) is present
    pub special: Vec<(u16, u16, f32)>,
    pub mode: Mode,
}

impl SafetySpec {
    pub fn touch(mode: Mode) -> Self {
        SafetySpec { to_env: 0.0, to_robot: 0.0, special: vec![], mode }
    }
    pub fn build(&self) -> SafetyDistances {
        let mut m = HashMap::new();
        for &(a, b, d) in &self.special {
            m.insert((a, b), d);
        }
        SafetyDistances {
            to_environment: self.to_env,
            to_robot_default: self.to_robot,
            special_distances: m,
            mode: match self.mode {
                Mode::First => CheckMode::FirstCollisionOnly,
                Mode::All => CheckMode::AllCollsions,
                Mode::NoCheck => CheckMode::NoCheck,
            },
        }
    }
    /// The oracle's own, order-insensitive lookup (written from the property text).
    pub fn distance(&self, a: usize, b: usize) -> f32 {
        for &(x, y, d) in &self.special {
            if (x as usize == a && y as usize == b) || (x as usize == b && y as usize == a) {
                return d;
            }
        }
        if a >= ENV0 || b >= ENV0 {
            self.to_env
        } else {
            self.to_robot
        }
    }
}

#[derive(Clone, Copy, Debug, Serialize, Deserialize, PartialEq, Eq)]
pub enum Ctor {
    /// `KinematicsWithShape { kinematics, body }` assembled from public fields (tool and base optional)
    Direct,
    /// `KinematicsWithShape::new(.., first_collision_only)`
    New(bool),
    /// `KinematicsWithShape::with_safety(..)`
    WithSafety,
}

#[derive(Clone, Debug, Serialize, Deserialize, PartialEq)]
pub struct CellSpec {
    /// a1, a2, b, c1, c2, c3, c4
    pub params: [f64; 7],
    pub offsets: [f64; 6],
    pub signs: [i8; 6],
    /// joint limits (from, to); None = solver without constraints
    pub limits: Option<([f64; 6], [f64; 6])>,
    pub sorting_weight: f64,
    pub links: Vec<MeshSpec>,
    pub tool: Option<MeshSpec>,
    pub base: Option<MeshSpec>,
    /// kinematic base transform (None = no Base wrapper)
    pub base_tf: Option<PoseSpec>,
    /// kinematic tool transform (None = no Tool wrapper)
    pub tool_tf: Option<PoseSpec>,
    pub env: Vec<EnvSpec>,
    pub safety: SafetySpec,
    pub ctor: Ctor,
    /// how the limits object is made: 0 = Constraints::new, 1 = from_degrees, 2 = new() with other
    /// limits followed by two update_range calls that each change ONE bound per joint
    #[serde(default)]
    pub limits_ctor: u8,
    /// the stack is wrapped in a `Parallelogram { scaling, driven, coupled }` (outermost)
    #[serde(default)]
    pub parallelogram: Option<(f64, usize, usize)>,
    /// the robot is given a CLONE of the safety table the scenario describes
    #[serde(default)]
    pub clone_safety: bool,
}

impl CellSpec {
    pub fn parameters(&self) -> Parameters {
        Parameters {
            a1: self.params[0],
            a2: self.params[1],
            b: self.params[2],
            c1: self.params[3],
            c2: self.params[4],
            c3: self.params[5],
            c4: self.params[6],
            offsets: self.offsets,
            sign_corrections: self.signs,
            dof: 6,
        }
    }

    pub fn constraints(&self) -> Option<Constraints> {
        self.limits.map(|(f, t)| match self.limits_ctor {
            1 => {
                let r: [std::ops::RangeInclusive<f64>; 6] = std::array::from_fn(|j| f[j].to_degrees()..=t[j].to_degrees());
                let mut c = Constraints::from_degrees(r, self.sorting_weight);
                // from_degrees converts units itself; pin the exact bounds the scenario states
                c.update_range(f, t);
                c
            }
            // from_degrees as it comes (bounds may differ from the scenario's by a rounding error of
            // the unit conversion, far inside the oracles' guard band)
            3 => {
                let r: [std::ops::RangeInclusive<f64>; 6] = std::array::from_fn(|j| f[j].to_degrees()..=t[j].to_degrees());
                Constraints::from_degrees(r, self.sorting_weight)
            }
            2 => {
                let other_f: [f64; 6] = std::array::from_fn(|j| f[j] - 0.7);
                let other_t: [f64; 6] = std::array::from_fn(|j| t[j] + 0.4);
                let mut c = Constraints::new(other_f, other_t, self.sorting_weight);
                c.update_range(f, other_t); // lower bounds change, upper bounds stay
                c.update_range(f, t); // upper bounds change, lower bounds stay
                c
            }
            _ => Constraints::new(f, t, self.sorting_weight),
        })
    }

    /// The underlying kinematic stack, assembled by the harness itself: limits -> base -> tool.
    pub fn reference_stack(&self) -> Arc<dyn Kinematics> {
        let opw: Arc<dyn Kinematics> = match self.constraints() {
            Some(c) => Arc::new(OPWKinematics::new_with_constraints(self.parameters(), c)),
            None => Arc::new(OPWKinematics::new(self.parameters())),
        };
        let with_base: Arc<dyn Kinematics> = match &self.base_tf {
            Some(b) => Arc::new(Base { robot: opw, base: b.iso() }),
            None => opw,
        };
        let with_tool: Arc<dyn Kinematics> = match &self.tool_tf {
            Some(t) => Arc::new(Tool { robot: with_base, tool: t.iso() }),
            None => with_base,
        };
        match self.parallelogram {
            Some((scaling, driven, coupled)) => Arc::new(rs_opw_kinematics::parallelogram::Parallelogram { robot: with_tool, scaling, driven, coupled }),
            None => with_tool,
        }
    }

    fn link_meshes(&self) -> [TriMesh; 6] {
        assert_eq!(self.links.len(), 6);
        std::array::from_fn(|i| self.links[i].build())
    }

    fn environment(&self) -> Vec<CollisionBody> {
        self.env.iter().map(|e| CollisionBody { mesh: e.mesh.build(), pose: e.pose.iso32() }).collect()
    }

    pub fn build_body(&self) -> RobotBody {
        RobotBody {
            joint_meshes: self.link_meshes(),
            tool: self.tool.as_ref().map(|m| m.build()),
            base: self.base.as_ref().map(|m| BaseBody {
                mesh: m.build(),
                base_pose: self.base_tf.unwrap_or(PoseSpec::identity()).iso32(),
            }),
            collision_environment: self.environment(),
            safety: self.built_safety(),
        }
    }

    /// The robot assembled from public fields around a `Probe` (the robot-model seam).
    pub fn build_probed_robot(&self) -> KinematicsWithShape {
        KinematicsWithShape {
            kinematics: Arc::new(crate::probe::Probe { inner: self.reference_stack() }),
            body: self.build_body(),
        }
    }

    /// Build the robot through the library API selected by `ctor`.
    pub fn build_robot(&self) -> KinematicsWithShape {
        match self.ctor {
            Ctor::Direct => KinematicsWithShape { kinematics: self.reference_stack(), body: self.build_body() },
            Ctor::New(first) => KinematicsWithShape::new(
                self.parameters(),
                self.constraints().expect("constructor needs limits"),
                self.link_meshes(),
                self.base.as_ref().expect("constructor needs base").build(),
                self.base_tf.expect("constructor needs base tf").iso(),
                self.tool.as_ref().expect("constructor needs tool").build(),
                self.tool_tf.expect("constructor needs tool tf").iso(),
                self.environment(),
                first,
            ),
            Ctor::WithSafety => KinematicsWithShape::with_safety(
                self.parameters(),
                self.constraints().expect("constructor needs limits"),
                self.link_meshes(),
                self.base.as_ref().expect("constructor needs base").build(),
                self.base_tf.expect("constructor needs base tf").iso(),
                self.tool.as_ref().expect("constructor needs tool").build(),
                self.tool_tf.expect("constructor needs tool tf").iso(),
                self.environment(),
                self.built_safety(),
            ),
        }
    }

    /// The safety table handed to the robot: the one the scenario describes, or a clone of it.
    pub fn built_safety(&self) -> SafetyDistances {
        let t = self.safety.build();
        if self.clone_safety {
            t.clone()
        } else {
            t
        }
    }
}

/// The oracle's private copy of the geometry (built from the spec, never from the robot).
pub struct OracleCell {
    pub links: Vec<TriMesh>,
    pub tool: Option<TriMesh>,
    pub base: Option<(TriMesh, Isometry3<f32>)>,
    pub env: Vec<(TriMesh, Isometry3<f32>)>,
    pub stack: Arc<dyn Kinematics>,
}

impl OracleCell {
    pub fn new(spec: &CellSpec) -> Self {
        OracleCell {
            links: spec.links.iter().map(|m| m.build()).collect(),
            tool: spec.tool.as_ref().map(|m| m.build()),
            base: spec.base.as_ref().map(|m| (m.build(), spec.base_tf.unwrap_or(PoseSpec::identity()).iso32())),
            env: spec.env.iter().map(|e| (e.mesh.build(), e.pose.iso32())).collect(),
            stack: spec.reference_stack(),
        }
    }
}
