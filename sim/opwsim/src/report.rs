//! Verdict plumbing: violations, known findings, replay files, evidence files, exit codes.

use serde::{Deserialize, Serialize};
use serde_json::{json, Value};
use std::collections::BTreeMap;
use std::io::Write;
use std::path::PathBuf;

pub fn verif_root() -> PathBuf {
    std::env::var("VERIF_ROOT").map(PathBuf::from).unwrap_or_else(|_| PathBuf::from("/verif"))
}

pub fn verif_seed() -> u64 {
    match std::env::var("VERIF_SEED") {
        Ok(s) => s.trim().parse::<u64>().unwrap_or_else(|_| simctx::name_hash(&s)),
        Err(_) => 20260927,
    }
}

pub fn jobs() -> usize {
    std::env::var("VERIF_JOBS").ok().and_then(|s| s.parse().ok()).unwrap_or(16).clamp(1, 64)
}

/// The verdict channel. The code under test prints a lot to stdout; the wrapper script sends
/// stdout to /dev/null and hands us the real stdout as fd 3 (`3>&1 1>/dev/null`). Without fd 3
/// (binary run by hand) we fall back to stderr.
pub fn say(line: &str) {
    use std::os::fd::FromRawFd;
    static USE_FD3: std::sync::OnceLock<bool> = std::sync::OnceLock::new();
    let fd3 = *USE_FD3.get_or_init(|| std::env::var("OPWSIM_REPORT_FD").map(|v| v == "3").unwrap_or(false));
    if fd3 {
        let mut f = unsafe { std::fs::File::from_raw_fd(3) };
        let _ = writeln!(f, "{line}");
        std::mem::forget(f);
    } else {
        eprintln!("{line}");
    }
}

#[derive(Clone, Debug, Serialize, Deserialize)]
pub struct Violation {
    pub property: String,
    /// which clause of the oracle failed, e.g. "a:missed-pair"
    pub clause: String,
    /// structural signature used to match known findings (never contains seeds or numbers that
    /// vary from case to case)
    pub signature: String,
    pub detail: String,
    /// complete, explicit, replayable description of the failing case
    pub case: Value,
    /// where in the deterministic shard sequence it was observed: (shard, scenario index)
    #[serde(default)]
    pub origin: Option<(usize, usize)>,
}

#[derive(Clone, Debug, Serialize, Deserialize)]
pub struct KnownFinding {
    pub property: String,
    pub signature: String,
    pub what: String,
}

#[derive(Clone, Debug, Serialize, Deserialize, Default)]
pub struct KnownFile {
    #[serde(default)]
    pub findings: Vec<KnownFinding>,
    #[serde(default)]
    pub fixed: Vec<String>,
}

pub fn load_known() -> KnownFile {
    let p = verif_root().join("known_findings.json");
    match std::fs::read_to_string(&p) {
        Ok(s) => serde_json::from_str(&s).unwrap_or_else(|e| {
            say(&format!("HARNESS-ERROR: cannot parse {}: {e}", p.display()));
            std::process::exit(2)
        }),
        Err(_) => KnownFile::default(),
    }
}

/// Everything a check accumulates while it runs.
#[derive(Default, Debug)]
pub struct Tally {
    pub evaluations: u64,
    pub distinct: std::collections::HashSet<u128>,
    /// distinct cases counted by other processes (shards generate disjoint scenarios, so the
    /// per-shard counts add up)
    pub distinct_extra: u64,
    pub counters: BTreeMap<String, u64>,
    /// per shard: how many failures of a (clause, signature) have been minimised and reported
    pub reported_per_signature: BTreeMap<(String, String), u32>,
    pub samples: Vec<Value>,
    pub violations: Vec<Violation>,
    pub harness_errors: Vec<String>,
}

impl Tally {
    /// A change that breaks a property everywhere fails in every scenario: minimising (hundreds
    /// of re-executions) and reporting the first few failures of a (clause, signature) per shard is
    /// enough, the rest are only counted.
    pub fn first_few(&mut self, clause: &str, signature: &str, limit: u32) -> bool {
        let n = self.reported_per_signature.entry((clause.to_string(), signature.to_string())).or_insert(0);
        *n += 1;
        if *n > limit {
            *self.counters.entry("failures_counted_but_not_minimised".into()).or_insert(0) += 1;
            false
        } else {
            true
        }
    }

    pub fn bump(&mut self, key: &str, by: u64) {
        *self.counters.entry(key.to_string()).or_insert(0) += by;
    }
    pub fn max(&mut self, key: &str, v: u64) {
        let e = self.counters.entry(key.to_string()).or_insert(0);
        if v > *e {
            *e = v;
        }
    }
    pub fn merge(&mut self, other: Tally) {
        self.evaluations += other.evaluations;
        self.distinct.extend(other.distinct);
        self.distinct_extra += other.distinct_extra;
        for (k, v) in other.counters {
            if k.starts_with("max_") {
                self.max(&k, v);
            } else {
                self.bump(&k, v);
            }
        }
        for s in other.samples {
            if self.samples.len() < 6 {
                self.samples.push(s);
            }
        }
        self.violations.extend(other.violations);
        self.harness_errors.extend(other.harness_errors);
    }
}

#[derive(Serialize, Deserialize, Default)]
struct TallyWire {
    evaluations: u64,
    distinct_count: u64,
    counters: BTreeMap<String, u64>,
    samples: Vec<Value>,
    violations: Vec<Violation>,
    harness_errors: Vec<String>,
}

impl Tally {
    fn to_wire(&self) -> TallyWire {
        TallyWire {
            evaluations: self.evaluations,
            distinct_count: self.distinct.len() as u64 + self.distinct_extra,
            counters: self.counters.clone(),
            samples: self.samples.clone(),
            violations: self.violations.clone(),
            harness_errors: self.harness_errors.clone(),
        }
    }
    fn from_wire(w: TallyWire) -> Tally {
        Tally {
            evaluations: w.evaluations,
            distinct: Default::default(),
            distinct_extra: w.distinct_count,
            counters: w.counters,
            reported_per_signature: Default::default(),
            samples: w.samples,
            violations: w.violations,
            harness_errors: w.harness_errors,
        }
    }
}

pub struct CheckMeta<'a> {
    pub property: &'a str,
    pub tier: &'a str,
    pub seed: u64,
    pub level: &'a str,
    pub rule: &'a str,
    pub assumptions: Vec<String>,
    pub components: Value,
    pub exhaustive: bool,
}

fn short_hash(v: &Value) -> String {
    let s = serde_json::to_string(v).unwrap_or_default();
    format!("{:012x}", simctx::name_hash(&s) & 0xffff_ffff_ffff)
}

/// Write evidence, replay files and verdict lines; return the process exit code.
///
/// `confirm` re-runs a violation's case in this process from its JSON alone (exactly what
/// `opwsim replay` does) and returns the clause it fails with, if any. Only violations that
/// reproduce are reported; one that does not is a harness error (exit 2), never an alarm.
pub fn finish(
    meta: CheckMeta,
    mut tally: Tally,
    wall_s: f64,
    _confirm_in_process: &dyn Fn(&Value) -> Vec<(String, String)>,
    history: &dyn Fn(usize, usize) -> Option<Value>,
) -> i32 {
    let known = load_known();
    let root = verif_root();
    let _ = std::fs::create_dir_all(root.join("replays"));
    let _ = std::fs::create_dir_all(root.join("evidence"));

    // de-duplicate by signature: one replay per distinct signature (keep the smallest case)
    let mut by_sig: BTreeMap<String, Violation> = BTreeMap::new();
    for v in tally.violations.drain(..) {
        let size = serde_json::to_string(&v.case).map(|s| s.len()).unwrap_or(usize::MAX);
        match by_sig.get(&v.signature) {
            Some(old) if serde_json::to_string(&old.case).map(|s| s.len()).unwrap_or(0) <= size => {}
            _ => {
                by_sig.insert(v.signature.clone(), v);
            }
        }
    }

    let mut new_violations = 0;
    let mut known_hits = 0;
    let mut not_reproduced: Vec<String> = Vec::new();
    let mut lines = Vec::new();
    let by_sig: BTreeMap<String, Violation> = by_sig
        .into_iter()
        .map(|(k, mut v)| {
            if v.property.is_empty() {
                v.property = meta.property.to_string();
            }
            if v.case.is_null() {
                if let Some((sh, run)) = v.origin {
                    v.case = history(sh, run).unwrap_or(Value::Null);
                }
            }
            (k, v)
        })
        .collect();
    // Confirmation costs fresh processes (and, for history-dependent failures, re-running the
    // scenarios that came before): a handful of confirmed violations decides the run, the
    // remaining candidate signatures are counted, not confirmed.
    const MAX_REPORTED: usize = 6;
    const MAX_HISTORY_SEARCHES: usize = 8;
    let mut history_searches = 0usize;
    let mut unconfirmed_candidates = 0usize;
    if let Ok(dir) = std::env::var("OPWSIM_DUMP_CANDIDATES") {
        // debugging aid: every candidate as observed, before confirmation
        let _ = std::fs::create_dir_all(&dir);
        for (i, (_, v)) in by_sig.iter().enumerate() {
            let _ = std::fs::write(format!("{dir}/candidate-{i}.json"), serde_json::to_string(&json!({"clause": v.clause, "origin": v.origin, "detail": v.detail, "case": v.case})).unwrap_or_default());
        }
    }
    for (sig, v) in &by_sig {
        if new_violations >= MAX_REPORTED {
            unconfirmed_candidates += 1;
            continue;
        }
        if v.case.is_null() {
            not_reproduced.push(format!("{} ({}): the scenario could not be regenerated", v.clause, v.detail));
            continue;
        }
        let replay = json!({
            "property": v.property, "clause": v.clause, "signature": v.signature,
            "detail": v.detail,
            "found_with": {"VERIF_SEED": meta.seed, "tier": meta.tier},
            "how_to_replay": "cd /verif && ./check replay <this file>   (exit 1 and a VIOLATION line if the clause fails again)",
            "note": "case is the complete, minimised, explicit description of the failing execution(s): cell / inputs as numbers, fault plan, and per configuration the scheduler decisions (sched.Replay = task id chosen at each scheduling point; an exhausted or inapplicable entry means 'continue the current task, else lowest id') and the random outcomes handed to the code (rng.List)",
            "case": v.case,
        });
        // Confirm in a FRESH process (no state left over from anything this process ran): first
        // the explicit case alone; if that does not fail, the case preceded by the scenarios
        // that ran before it in its shard (windows of growing length). Hidden state in the code
        // under test (statics, caches, thread-locals) is thereby part of a replayable history.
        // A check may attach a FALLBACK form of the case under "fallback": the unminimised case
        // together with the exact history it had inside its own scenario (minimising a case in
        // the shard changes its relation to state left by earlier calls, so the minimised form
        // of a history-dependent failure often passes).
        let fallback: Option<Value> = v.case.get("fallback").cloned().filter(|f| !f.is_null());
        let primary: Value = {
            let mut c = v.case.clone();
            if let Some(o) = c.as_object_mut() {
                o.remove("fallback");
            }
            c
        };
        let mut confirmed: Option<Value> = None;
        let fails_same = |cases: Vec<Value>| -> bool { judge_in_fresh_process(&json!({"cases": cases})).iter().any(|(c, _)| *c == v.clause) };
        if fails_same(vec![primary.clone()]) {
            confirmed = Some(primary.clone());
        } else if history_searches >= MAX_HISTORY_SEARCHES {
            unconfirmed_candidates += 1;
            continue;
        } else if fallback.as_ref().map(|f| fails_same(vec![f.clone()])).unwrap_or(false) {
            history_searches += 1;
            confirmed = fallback.clone();
        } else if let Some((shard, run)) = v.origin {
            history_searches += 1;
            'windows: for window in [1usize, 2, 4, 8, 16, 64, usize::MAX] {
                let lo = run.saturating_sub(window);
                let earlier: Vec<Value> = (lo..run).filter_map(|r| history(shard, r)).collect();
                if earlier.is_empty() {
                    continue;
                }
                // form A: earlier scenarios, the scenario of the violation itself, the minimised case;
                // form B: earlier scenarios, then the fallback (which carries its own in-scenario history)
                let mut forms: Vec<(Vec<Value>, Value)> = Vec::new();
                {
                    let mut h = earlier.clone();
                    if let Some(own) = history(shard, run) {
                        h.push(own);
                    }
                    forms.push((h, primary.clone()));
                }
                if let Some(f) = &fallback {
                    forms.push((earlier.clone(), f.clone()));
                }
                for (hist0, last_case) in forms {
                    let mut all = hist0.clone();
                    all.push(last_case.clone());
                    if !fails_same(all) {
                        continue;
                    }
                    // shrink the history: usually one or two earlier scenarios matter. Try single
                    // earlier cases first, then drop halves (each trial is a fresh process).
                    let mut hist = hist0;
                    let mut budget = 14;
                    let fails_with = |h: &[Value], budget: &mut i32| -> bool {
                        *budget -= 1;
                        let mut all = h.to_vec();
                        all.push(last_case.clone());
                        fails_same(all)
                    };
                    let mut shrunk = false;
                    for k in 0..hist.len().min(6) {
                        if budget <= 0 {
                            break;
                        }
                        let single = vec![hist[hist.len() - 1 - k].clone()];
                        if fails_with(&single, &mut budget) {
                            hist = single;
                            shrunk = true;
                            break;
                        }
                    }
                    while !shrunk && hist.len() > 1 && budget > 0 {
                        let half = hist.len() / 2;
                        let back = hist[half..].to_vec();
                        let front = hist[..half].to_vec();
                        if fails_with(&back, &mut budget) {
                            hist = back;
                        } else if budget > 0 && fails_with(&front, &mut budget) {
                            hist = front;
                        } else {
                            break;
                        }
                    }
                    let n = hist.len();
                    let mut with_history = last_case.clone();
                    // the last case may carry a history of its own (in-scenario prefix): keep it last
                    let mut full: Vec<Value> = hist;
                    if let Some(own) = with_history.get("history").and_then(|h| h.as_array()).cloned() {
                        full.extend(own);
                    }
                    with_history["history"] = json!(full);
                    with_history["history_note"] = json!(format!(
                        "the failing case alone passes in a fresh process; it fails after the case(s) in 'history' have been executed in the same process ({} earlier scenario(s) of shard {shard}, plus the calls that preceded it inside its own scenario if listed): the code under test keeps state between calls",
                        n
                    ));
                    confirmed = Some(with_history);
                    break 'windows;
                }
                if lo == 0 {
                    break;
                }
            }
        }
        let Some(case_for_replay) = confirmed else {
            not_reproduced.push(format!(
                "violation {} ({}) was observed in a simulated execution but did not reproduce in a fresh process, neither alone nor after the scenarios that preceded it in its shard",
                v.clause, v.detail
            ));
            continue;
        };
        let mut replay = replay;
        replay["case"] = case_for_replay;
        if let Some(k) = known.findings.iter().find(|k| k.property == v.property && &k.signature == sig) {
            known_hits += 1;
            lines.push(format!("KNOWN-FINDING: property={} {} [{}]", v.property, k.what, sig));
            continue;
        }
        let name = format!("{}-{}-{}.json", v.property, meta.seed, short_hash(&replay));
        let path = root.join("replays").join(&name);
        if let Err(e) = std::fs::write(&path, serde_json::to_string_pretty(&replay).unwrap()) {
            tally.harness_errors.push(format!("cannot write replay {}: {e}", path.display()));
            continue;
        }
        new_violations += 1;
        lines.push(format!("  clause={} signature={} :: {}", v.clause, sig, v.detail));
        lines.push(format!("VIOLATION property={} replay={}", v.property, path.display()));
    }

    let distinct = tally.distinct.len() as u64 + tally.distinct_extra;
    let hours = (wall_s / 3600.0).max(1e-9);
    let mut coverage = json!({
        "evaluations": tally.evaluations,
        "distinct_nontrivial": distinct,
        "rule": meta.rule,
        "samples": tally.samples,
        "exhaustive": meta.exhaustive,
        "runs_per_hour": (tally.evaluations as f64 / hours).round(),
        "counters": tally.counters,
        "components": meta.components,
        "known_findings_hit": known_hits,
        "simulated_time_note": "the code under test has no timers or deadlines; where it reads the clock (the planners measure themselves) it reads the simulated clock, which advances per scheduling decision and per read and can leap (counters.simulated_time_us, clock_reads, fault_clock_leap_fired); otherwise simulated time is the number of scheduler steps (counters.sched_steps)",
    });
    if tally.samples.is_empty() {
        coverage["samples"] = json!([{"note": "no sample recorded"}]);
    }
    if let Some(v) = tally.counters.get("traces_validated_against_impl") {
        coverage["traces_validated_against_impl"] = json!(v);
    }
    let evidence = json!({
        "property_id": meta.property,
        "tier": meta.tier,
        "seed": meta.seed,
        "level": meta.level,
        "coverage": coverage,
        "assumptions": meta.assumptions,
        "wall_s": (wall_s * 1000.0).round() / 1000.0,
        "violations": new_violations,
    });
    let ev_path = root.join("evidence").join(format!("{}.json", meta.property));
    if let Err(e) = std::fs::write(&ev_path, serde_json::to_string_pretty(&evidence).unwrap()) {
        tally.harness_errors.push(format!("cannot write evidence {}: {e}", ev_path.display()));
    }

    for l in &lines {
        say(l);
    }
    say(&format!(
        "{} {} seed={} evaluations={} distinct_nontrivial={} violations={} known_findings={} wall={:.1}s",
        meta.property, meta.tier, meta.seed, tally.evaluations, distinct, new_violations, known_hits, wall_s
    ));
    // A violation that was observed but cannot be replayed from its explicit description means the
    // behaviour depended on something outside the description (hidden state in the code under
    // test, or a harness fault). It is never reported as a VIOLATION. If other violations of this
    // run do replay, those are reported (exit 1) and this is a note; if none does, it is a
    // harness error (exit 2): no verdict.
    for n in not_reproduced.iter().take(5) {
        say(&format!("NOTE: {n}"));
    }
    if unconfirmed_candidates > 0 {
        say(&format!("NOTE: {unconfirmed_candidates} further candidate signature(s) were observed and not put through confirmation (limit: {MAX_REPORTED} reported violations, {MAX_HISTORY_SEARCHES} history searches per run)"));
        if new_violations == 0 && known_hits == 0 {
            tally.harness_errors.push(format!("{unconfirmed_candidates} candidate violation(s) left unconfirmed and none confirmed"));
        }
    }
    if !not_reproduced.is_empty() && new_violations == 0 && known_hits == 0 {
        tally.harness_errors.push(format!("{} observed violation(s) did not replay; no replayable violation in this run", not_reproduced.len()));
    }
    if !tally.harness_errors.is_empty() {
        for e in tally.harness_errors.iter().take(10) {
            say(&format!("HARNESS-ERROR: {e}"));
        }
        return 2;
    }
    if new_violations > 0 {
        1
    } else {
        0
    }
}

/// Called by every check at the start of scenario `run` of its shard: leaves a marker the parent
/// can read if this child has to be killed (a scenario that never terminates).
pub fn progress(shard: usize, run: usize) {
    if let Ok(p) = std::env::var("OPWSIM_CHILD_PROGRESS") {
        let _ = std::fs::write(&p, format!("{shard} {run}"));
        let _ = std::fs::remove_file(format!("{p}.case"));
    }
}

/// Called right before every simulated execution of a shard with the explicit description of
/// what is about to run: if the execution never comes back, this is the replay description.
pub fn progress_case(case: impl FnOnce() -> Value) {
    if std::env::var("OPWSIM_SLOW_LOG").is_ok() {
        // debugging aid: wall-clock time between consecutive executions of this process
        static LAST: std::sync::Mutex<Option<std::time::Instant>> = std::sync::Mutex::new(None);
        let mut l = LAST.lock().unwrap();
        if let Some(t) = *l {
            if t.elapsed().as_secs() >= 2 {
                eprintln!("SLOW: {:.1}s since the previous execution started", t.elapsed().as_secs_f64());
            }
        }
        *l = Some(std::time::Instant::now());
    }
    if let Ok(p) = std::env::var("OPWSIM_CHILD_PROGRESS") {
        let _ = std::fs::write(format!("{p}.case"), serde_json::to_string(&case()).unwrap_or_default());
    }
}

fn wait_with_timeout(child: &mut std::process::Child, secs: u64) -> Option<std::process::ExitStatus> {
    let start = std::time::Instant::now();
    loop {
        match child.try_wait() {
            Ok(Some(st)) => return Some(st),
            Ok(None) => {
                if start.elapsed().as_secs() >= secs {
                    let _ = child.kill();
                    let _ = child.wait();
                    return None;
                }
                std::thread::sleep(std::time::Duration::from_millis(20));
            }
            Err(_) => return None,
        }
    }
}

/// Wait for a shard child. The child is considered hung when its progress files (scenario marker
/// and the explicit case about to be executed) have not been rewritten for `stall_secs`: a limit
/// on ONE execution plus its judging, not on the shard, so load and tier size do not matter.
/// Returns the exit status (None = killed) and the longest gap between progress updates seen.
fn wait_with_progress(child: &mut std::process::Child, files: &[std::path::PathBuf], stall_secs: u64) -> (Option<std::process::ExitStatus>, u64) {
    let mut last_change = std::time::Instant::now();
    let mut last_seen: Vec<Option<std::time::SystemTime>> = vec![None; files.len()];
    let mut max_gap_ms = 0u64;
    let mut polls = 0u64;
    loop {
        match child.try_wait() {
            Ok(Some(st)) => return (Some(st), max_gap_ms),
            Ok(None) => {
                polls += 1;
                if polls % 10 == 0 {
                    let now: Vec<Option<std::time::SystemTime>> =
                        files.iter().map(|f| std::fs::metadata(f).ok().and_then(|m| m.modified().ok())).collect();
                    if now != last_seen {
                        last_seen = now;
                        last_change = std::time::Instant::now();
                    }
                    let gap = last_change.elapsed();
                    max_gap_ms = max_gap_ms.max(gap.as_millis() as u64);
                    if gap.as_secs() >= stall_secs {
                        let _ = child.kill();
                        let _ = child.wait();
                        return (None, max_gap_ms);
                    }
                }
                std::thread::sleep(std::time::Duration::from_millis(20));
            }
            Err(_) => return (None, max_gap_ms),
        }
    }
}

/// Wall-clock seconds without any progress (no new scenario, no new execution) after which a
/// shard child is declared hung.
pub fn stall_timeout_s() -> u64 {
    std::env::var("OPWSIM_STALL_TIMEOUT_S").ok().and_then(|s| s.parse().ok()).unwrap_or(600)
}

pub fn case_timeout_s(n_cases: usize) -> u64 {
    let base: u64 = std::env::var("OPWSIM_CASE_TIMEOUT_S").ok().and_then(|s| s.parse().ok()).unwrap_or(120);
    base + 30 * n_cases as u64
}

/// Judge a list of cases, in order, in a fresh process; returns the failing clauses of the LAST one.
pub fn judge_in_fresh_process(input: &Value) -> Vec<(String, String)> {
    let dir = verif_root().join("sim/target/scratch");
    let _ = std::fs::create_dir_all(&dir);
    static N: std::sync::atomic::AtomicUsize = std::sync::atomic::AtomicUsize::new(0);
    let k = N.fetch_add(1, std::sync::atomic::Ordering::SeqCst);
    let inp = dir.join(format!("judge-{}-{k}.in.json", std::process::id()));
    let out = dir.join(format!("judge-{}-{k}.out.json", std::process::id()));
    if std::fs::write(&inp, serde_json::to_string(input).unwrap()).is_err() {
        return vec![("harness:cannot-write".into(), inp.display().to_string())];
    }
    let exe = std::env::current_exe().expect("current_exe");
    let n_cases = input["cases"].as_array().map(|a| a.len()).unwrap_or(1);
    let spawned = std::process::Command::new(exe)
        .arg("__judge")
        .arg(&inp)
        .arg(&out)
        .env_remove("OPWSIM_REPORT_FD")
        .env_remove("OPWSIM_CHILD_SHARD")
        .env_remove("OPWSIM_CHILD_PROGRESS")
        .stdout(std::process::Stdio::null())
        .stderr(std::process::Stdio::null())
        .spawn();
    let res = match spawned {
        Ok(mut child) => match wait_with_timeout(&mut child, case_timeout_s(n_cases)) {
            Some(_) => std::fs::read_to_string(&out)
                .ok()
                .and_then(|s| serde_json::from_str::<Vec<(String, String)>>(&s).ok())
                .unwrap_or_else(|| vec![("harness:judge-process-failed".into(), String::new())]),
            // the case (or its history) does not come back: that IS the observation
            None => vec![(
                "t:no-termination".into(),
                format!("the execution did not terminate within {} s of wall-clock time in a fresh process (killed)", case_timeout_s(n_cases)),
            )],
        },
        Err(e) => vec![("harness:cannot-spawn".into(), e.to_string())],
    };
    let _ = std::fs::remove_file(&inp);
    let _ = std::fs::remove_file(&out);
    res
}

/// Run `n` shards, each in its OWN child process (up to `jobs()` at a time).
///
/// A shard is a pure function of (VERIF_SEED, shard index) executed sequentially on one driver
/// thread and one engine thread of a fresh process. Process-global state of the code under test
/// (statics, lazily initialised data, caches) therefore evolves deterministically within a shard
/// and cannot leak between shards that happen to run at the same time: no uncontrolled
/// nondeterminism enters through it, and a violation that depends on such state is replayable
/// by re-running the scenarios that preceded it (see `finish`).
///
/// The child is this same executable with the same arguments; it re-enters the check, reaches
/// this function, runs only its shard, writes its tally and exits.
pub fn run_shards<F>(n: usize, f: F) -> Tally
where
    F: Fn(usize) -> Tally + Sync,
{
    if let Ok(i) = std::env::var("OPWSIM_CHILD_SHARD") {
        let i: usize = i.parse().expect("OPWSIM_CHILD_SHARD");
        let t = match std::panic::catch_unwind(std::panic::AssertUnwindSafe(|| f(i))) {
            Ok(t) => t,
            Err(_) => {
                let mut t = Tally::default();
                t.harness_errors.push(format!("shard {i} panicked on the driver thread: {}", crate::sim::take_last_panic().unwrap_or_else(|| "?".into())));
                t
            }
        };
        let out = std::env::var("OPWSIM_CHILD_OUT").expect("OPWSIM_CHILD_OUT");
        std::fs::write(&out, serde_json::to_string(&t.to_wire()).unwrap()).expect("cannot write shard tally");
        std::process::exit(0);
    }
    if std::env::var("OPWSIM_IN_PROCESS").is_ok() {
        // single-process mode (debugging only)
        let mut total = Tally::default();
        for i in 0..n {
            total.merge(f(i));
        }
        return total;
    }
    let dir = verif_root().join("sim/target/scratch");
    let _ = std::fs::create_dir_all(&dir);
    let exe = std::env::current_exe().expect("current_exe");
    let args: Vec<String> = std::env::args().skip(1).collect();
    let next = std::sync::atomic::AtomicUsize::new(0);
    let results: std::sync::Mutex<Vec<(usize, Tally)>> = std::sync::Mutex::new(Vec::new());
    let max_gap = std::sync::atomic::AtomicU64::new(0);
    let workers = jobs().min(n.max(1));
    std::thread::scope(|s| {
        for _ in 0..workers {
            s.spawn(|| loop {
                let i = next.fetch_add(1, std::sync::atomic::Ordering::SeqCst);
                if i >= n {
                    break;
                }
                let out = dir.join(format!("tally-{}-{i}.json", std::process::id()));
                let err = dir.join(format!("tally-{}-{i}.stderr", std::process::id()));
                let prog = dir.join(format!("tally-{}-{i}.progress", std::process::id()));
                let spawned = std::process::Command::new(&exe)
                    .args(&args)
                    .env("OPWSIM_CHILD_SHARD", i.to_string())
                    .env("OPWSIM_CHILD_OUT", &out)
                    .env("OPWSIM_CHILD_PROGRESS", &prog)
                    .env("VERIF_JOBS", "1")
                    .env_remove("OPWSIM_REPORT_FD")
                    .stdout(std::process::Stdio::null())
                    .stderr(std::fs::File::create(&err).map(std::process::Stdio::from).unwrap_or(std::process::Stdio::null()))
                    .spawn();
                let status: std::io::Result<std::process::ExitStatus> = match spawned {
                    Ok(mut child) => match {
                        let case_file = std::path::PathBuf::from(format!("{}.case", prog.display()));
                        let (st, gap) = wait_with_progress(&mut child, &[prog.clone(), case_file], stall_timeout_s());
                        max_gap.fetch_max(gap, std::sync::atomic::Ordering::SeqCst);
                        st
                    } {
                        Some(st) => Ok(st),
                        None => {
                            // the shard hangs: report the scenario it was in as a (to be confirmed)
                            // non-termination violation; the rest of the shard is lost
                            let at = std::fs::read_to_string(&prog).unwrap_or_default();
                            let mut it = at.split_whitespace().filter_map(|x| x.parse::<usize>().ok());
                            let (sh, run) = (it.next().unwrap_or(i), it.next().unwrap_or(0));
                            let stuck: Value = std::fs::read_to_string(format!("{}.case", prog.display()))
                                .ok()
                                .and_then(|s| serde_json::from_str(&s).ok())
                                .unwrap_or(Value::Null);
                            let mut t = Tally::default();
                            t.violations.push(Violation {
                                property: String::new(),
                                clause: "t:no-termination".into(),
                                signature: "no-termination".into(),
                                detail: format!("shard {sh}, scenario {run}: one simulated execution (or its judging) made no progress for {} s of wall-clock time (child process killed)", stall_timeout_s()),
                                case: stuck,
                                origin: Some((sh, run)),
                            });
                            let _ = std::fs::remove_file(format!("{}.case", prog.display()));
                            let _ = std::fs::remove_file(&prog);
                            let _ = std::fs::remove_file(&err);
                            results.lock().unwrap().push((i, t));
                            continue;
                        }
                    },
                    Err(e) => Err(e),
                };
                let _ = std::fs::remove_file(&prog);
                let _ = std::fs::remove_file(format!("{}.case", prog.display()));
                let t = match (status, std::fs::read_to_string(&out)) {
                    (Ok(st), Ok(text)) if st.success() => match serde_json::from_str::<TallyWire>(&text) {
                        Ok(w) => Tally::from_wire(w),
                        Err(e) => {
                            let mut t = Tally::default();
                            t.harness_errors.push(format!("shard {i}: unreadable tally: {e}"));
                            t
                        }
                    },
                    (st, _) => {
                        let tail = std::fs::read_to_string(&err).unwrap_or_default();
                        let tail: String = tail.lines().rev().take(6).collect::<Vec<_>>().into_iter().rev().collect::<Vec<_>>().join(" | ");
                        let mut t = Tally::default();
                        t.harness_errors.push(format!("shard {i}: child process failed ({st:?}): {tail}"));
                        t
                    }
                };
                let _ = std::fs::remove_file(&out);
                let _ = std::fs::remove_file(&err);
                results.lock().unwrap().push((i, t));
            });
        }
    });
    let mut all = results.into_inner().unwrap();
    all.sort_by_key(|(i, _)| *i);
    let mut total = Tally::default();
    for (_, t) in all {
        total.merge(t);
    }
    // measured basis for the stall limit: longest time any shard went without a progress update
    *total.counters.entry("watchdog_longest_gap_between_progress_updates_ms".into()).or_insert(0) = max_gap.load(std::sync::atomic::Ordering::SeqCst);
    *total.counters.entry("watchdog_stall_limit_ms".into()).or_insert(0) = stall_timeout_s() * 1000;
    total
}
