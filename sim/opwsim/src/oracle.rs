//! Reference models used as oracles. They are written from the property text and share no code
//! path with what they judge: no task list, no skip sets, no bounding-box pre-filter.

use crate::cell::{OracleCell, SafetySpec, ENV0, J_BASE, J_TOOL, NEVER};
use nalgebra::Isometry3;
use parry3d::shape::TriMesh;
use std::f64::consts::PI;

#[derive(Clone, Debug)]
pub struct PairVerdict {
    pub a: usize,
    pub b: usize,
    pub r: f32,
    pub dist: f32,
    /// definite answer (meaningless when `dont_care`)
    pub collide: bool,
    /// the pair is so close to the decision boundary that f32 rounding may go either way
    pub dont_care: bool,
}

#[derive(Clone, Debug, Default)]
pub struct Brute {
    pub pairs: Vec<PairVerdict>,
}

impl Brute {
    pub fn definite(&self) -> Vec<(usize, usize)> {
        self.pairs.iter().filter(|p| p.collide && !p.dont_care).map(|p| (p.a, p.b)).collect()
    }
    pub fn dont_care(&self) -> Vec<(usize, usize)> {
        self.pairs.iter().filter(|p| p.dont_care).map(|p| (p.a, p.b)).collect()
    }
    pub fn any_definite(&self) -> bool {
        self.pairs.iter().any(|p| p.collide && !p.dont_care)
    }
    pub fn any_dont_care(&self) -> bool {
        self.pairs.iter().any(|p| p.dont_care)
    }
    pub fn get(&self, a: usize, b: usize) -> Option<&PairVerdict> {
        self.pairs.iter().find(|p| p.a == a && p.b == b)
    }
}

fn decide(
    a: usize,
    b: usize,
    ta: &Isometry3<f32>,
    ma: &TriMesh,
    tb: &Isometry3<f32>,
    mb: &TriMesh,
    safety: &SafetySpec,
) -> PairVerdict {
    let (lo, hi) = (a.min(b), a.max(b));
    let r = safety.distance(a, b);
    if r <= NEVER {
        return PairVerdict { a: lo, b: hi, r, dist: f32::NAN, collide: false, dont_care: false };
    }
    let dist = parry3d::query::distance(ta, ma, tb, mb).expect("distance supported");
    if r == 0.0 {
        let hit = parry3d::query::intersection_test(ta, ma, tb, mb).expect("intersection supported");
        let hit2 = parry3d::query::intersection_test(tb, mb, ta, ma).expect("intersection supported");
        // touching within float noise, or the test depends on argument order: either answer is fine
        let dc = hit != hit2 || (hit && dist > 0.0) || (!hit && dist < 2e-5);
        return PairVerdict { a: lo, b: hi, r, dist, collide: hit, dont_care: dc };
    }
    // Oracle and library evaluate the same parry query with the same arguments, so the band only
    // has to absorb the rounding of the library's conservative box pre-filter (f32 arithmetic on
    // metre-sized coordinates) and of an implementation that orders the two bodies differently.
    // It must stay well below the smallest safety distances in use (micrometres are legal).
    let band = (1e-4f32 * r).max(5e-6);
    let dc = (dist - r).abs() <= band;
    PairVerdict { a: lo, b: hi, r, dist, collide: dist <= r, dont_care: dc }
}

/// Exhaustive pairwise check of one posture, pairs enumerated from the property text:
/// non-adjacent links; every link and the tool against every environment body; tool against
/// links 1-4; base against links 2-6; tool against base.
pub fn brute_collision(cell: &OracleCell, poses: &[Isometry3<f32>; 6], safety: &SafetySpec) -> Brute {
    let mut out = Vec::new();
    for i in 0..6 {
        for j in (i + 2)..6 {
            out.push(decide(i, j, &poses[i], &cell.links[i], &poses[j], &cell.links[j], safety));
        }
    }
    for (k, (mesh, pose)) in cell.env.iter().enumerate() {
        for i in 0..6 {
            out.push(decide(i, ENV0 + k, &poses[i], &cell.links[i], pose, mesh, safety));
        }
        if let Some(tool) = &cell.tool {
            out.push(decide(J_TOOL, ENV0 + k, &poses[5], tool, pose, mesh, safety));
        }
    }
    if let Some(tool) = &cell.tool {
        for i in 0..4 {
            out.push(decide(i, J_TOOL, &poses[i], &cell.links[i], &poses[5], tool, safety));
        }
    }
    if let Some((bmesh, bpose)) = &cell.base {
        for i in 1..6 {
            out.push(decide(i, J_BASE, &poses[i], &cell.links[i], bpose, bmesh, safety));
        }
        if let Some(tool) = &cell.tool {
            out.push(decide(J_TOOL, J_BASE, &poses[5], tool, bpose, bmesh, safety));
        }
    }
    Brute { pairs: out }
}

/// Link poses of a joint vector, cast to f32 the way the library does it.
pub fn link_poses(cell: &OracleCell, q: &[f64; 6]) -> [Isometry3<f32>; 6] {
    cell.stack.forward_with_joint_poses(q).map(|p| p.cast::<f32>())
}

pub fn brute_q(cell: &OracleCell, q: &[f64; 6], safety: &SafetySpec) -> Brute {
    brute_collision(cell, &link_poses(cell, q), safety)
}

// ---------------------------------------------------------------------------------------------
// Joint-limit arcs
// ---------------------------------------------------------------------------------------------

#[derive(Clone, Copy, Debug, PartialEq, Eq)]
pub enum Tri {
    Yes,
    No,
    DontCare,
}

const TWO_PI: f64 = 2.0 * PI;

fn modp(x: f64) -> f64 {
    let r = x % TWO_PI;
    if r < 0.0 {
        r + TWO_PI
    } else {
        r
    }
}

/// Is `x` on the arc that starts at `from` and runs in the positive direction to `to`?
/// Guard band `eps` on both ends. `from == to` (mod nothing) is not a question this oracle
/// answers (that is property C07's subject); callers never generate it.
pub fn on_arc(x: f64, from: f64, to: f64, eps: f64) -> Tri {
    // an ordinary range of a full turn or more admits everything
    if from < to && to - from >= TWO_PI {
        return Tri::Yes;
    }
    // (a wrap-around arc of ALMOST a full turn still has a gap: samples within eps of it are
    // don't-cares like at the ends of any other arc)
    let width = if from < to { to - from } else { modp(to - from).min(TWO_PI) };
    let off = modp(x - from);
    // distance outside the arc, measured the short way round
    if off <= width {
        let inside_by = off.min(width - off);
        if inside_by >= eps {
            Tri::Yes
        } else {
            Tri::DontCare
        }
    } else {
        let outside_by = (off - width).min(TWO_PI - off);
        if outside_by > eps {
            Tri::No
        } else {
            Tri::DontCare
        }
    }
}

pub fn within_limits(q: &[f64; 6], from: &[f64; 6], to: &[f64; 6], eps: f64) -> Tri {
    let mut r = Tri::Yes;
    for i in 0..6 {
        match on_arc(q[i], from[i], to[i], eps) {
            Tri::No => return Tri::No,
            Tri::DontCare => r = Tri::DontCare,
            Tri::Yes => {}
        }
    }
    r
}

// ---------------------------------------------------------------------------------------------
// Independent link placement
// ---------------------------------------------------------------------------------------------

/// Link frames of an OPW arm, written from the published geometry (Brandstoetter et al. 2014 and
/// the crate's parameter documentation), independently of the library's code: frame 1 sits c1
/// above the base and turns about z; frame 2 is offset by (a1, b) and turns about y; frame 3 is
/// c2 further along z and turns about y; frame 4 is offset by a2 along x and turns about z; frame
/// 5 is c3 further along z and turns about y; frame 6 is c4 further along z and turns about z.
/// Joint values are first multiplied by their sign correction and reduced by their offset. The
/// base transform (if any) is applied in front; a tool transform does not move any link.
pub fn independent_link_poses(spec: &crate::cell::CellSpec, q: &[f64; 6]) -> [Isometry3<f64>; 6] {
    use nalgebra::{Translation3, UnitQuaternion, Vector3};
    let p = &spec.params;
    let (a1, a2, b, c1, c2, c3, c4) = (p[0], p[1], p[2], p[3], p[4], p[5], p[6]);
    // a parallelogram linkage (if any) acts on the user-facing joint values first: the coupled
    // joint is reduced by scaling times the driven one
    let mut q = *q;
    if let Some((scaling, driven, coupled)) = spec.parallelogram {
        q[coupled] -= scaling * q[driven];
    }
    let th: [f64; 6] = std::array::from_fn(|i| q[i] * spec.signs[i] as f64 - spec.offsets[i]);
    let rz = |a: f64| UnitQuaternion::from_axis_angle(&Vector3::z_axis(), a);
    let ry = |a: f64| UnitQuaternion::from_axis_angle(&Vector3::y_axis(), a);
    let step = |x: f64, y: f64, z: f64, r: UnitQuaternion<f64>| Isometry3::from_parts(Translation3::new(x, y, z), r);
    let base = spec.base_tf.map(|b| b.iso()).unwrap_or_else(Isometry3::identity);
    let f1 = base * step(0.0, 0.0, c1, rz(th[0]));
    let f2 = f1 * step(a1, b, 0.0, ry(th[1]));
    let f3 = f2 * step(0.0, 0.0, c2, ry(th[2]));
    let f4 = f3 * step(a2, 0.0, 0.0, rz(th[3]));
    let f5 = f4 * step(0.0, 0.0, c3, ry(th[4]));
    let f6 = f5 * step(0.0, 0.0, c4, rz(th[5]));
    [f1, f2, f3, f4, f5, f6]
}

/// Largest deviation (metres, radians) between the poses a kinematics object reports and the
/// independent ones.
pub fn placement_error(spec: &crate::cell::CellSpec, reported: &[Isometry3<f64>; 6], q: &[f64; 6]) -> (f64, f64) {
    let own = independent_link_poses(spec, q);
    let mut dt = 0.0f64;
    let mut dr = 0.0f64;
    for i in 0..6 {
        dt = dt.max((own[i].translation.vector - reported[i].translation.vector).norm());
        dr = dr.max(own[i].rotation.angle_to(&reported[i].rotation));
    }
    (dt, dr)
}

/// Pose of the tool centre point: the last link frame times the tool transform (if any).
pub fn independent_forward(spec: &crate::cell::CellSpec, q: &[f64; 6]) -> Isometry3<f64> {
    let f6 = independent_link_poses(spec, q)[5];
    match &spec.tool_tf {
        Some(t) => f6 * t.iso(),
        None => f6,
    }
}
